#!/usr/bin/env python3
"""Regex (XSD flavour, as published in specification.rs) -> minimal byte DFA -> Rust reference function.

The reference automaton is *generated from /repo's specification.rs at every run*; nothing is cached.
Reading of the published pattern:
  * whole-string match (XSD patterns are implicitly anchored)
  * `.`  = any byte except '\n' and '\r'; because readings of `.` differ between regex flavours on exactly these two
           bytes, harnesses for patterns containing `.` assume inputs without '\n'/'\r' (don't-care region)
  * `\\d` = [0-9]; XSD reads \\d as Unicode Nd, so harnesses for patterns containing `\\d` assume ASCII input
  * bytes >= 0x80 are matched only by `.` and by negated classes (none occur)
The compiler is validated against Python's `re.fullmatch` on its own transition-cover strings (see selftest()).
"""
import re
import sys
import itertools

# ---------------------------------------------------------------- parser

class P:
    def __init__(self, s):
        self.s = s
        self.i = 0
        self.uses_dot = False
        self.uses_d = False

    def peek(self):
        return self.s[self.i] if self.i < len(self.s) else None

    def eat(self, c=None):
        ch = self.s[self.i]
        if c is not None and ch != c:
            raise ValueError(f"expected {c!r} at {self.i} in {self.s!r}")
        self.i += 1
        return ch

    def parse(self):
        r = self.alt()
        if self.i != len(self.s):
            raise ValueError(f"trailing input at {self.i} in {self.s!r}")
        return r

    def alt(self):
        items = [self.cat()]
        while self.peek() == '|':
            self.eat('|')
            items.append(self.cat())
        return ('alt', items) if len(items) > 1 else items[0]

    def cat(self):
        items = []
        while self.peek() is not None and self.peek() not in '|)':
            items.append(self.rep())
        return ('cat', items)

    def rep(self):
        a = self.atom()
        while self.peek() is not None and self.peek() in '*+?{':
            c = self.peek()
            if c == '*':
                self.eat(); a = ('rep', a, 0, None)
            elif c == '+':
                self.eat(); a = ('rep', a, 1, None)
            elif c == '?':
                self.eat(); a = ('rep', a, 0, 1)
            else:
                self.eat('{')
                j = self.s.index('}', self.i)
                body = self.s[self.i:j]
                self.i = j + 1
                if ',' in body:
                    lo, hi = body.split(',')
                    lo = int(lo); hi = int(hi) if hi.strip() else None
                else:
                    lo = hi = int(body)
                a = ('rep', a, lo, hi)
        return a

    def escape(self):
        self.eat('\\')
        c = self.eat()
        if c == 'd':
            self.uses_d = True
            return set(range(0x30, 0x3a))
        if c in 'swSWDbB':
            raise ValueError(f"unsupported escape \\{c}")
        if c == 'n': return {10}
        if c == 'r': return {13}
        if c == 't': return {9}
        return {ord(c)}

    def atom(self):
        c = self.peek()
        if c == '(':
            self.eat('(')
            r = self.alt()
            self.eat(')')
            return r
        if c == '[':
            return ('set', frozenset(self.cls()))
        if c == '.':
            self.eat()
            self.uses_dot = True
            return ('set', frozenset(set(range(256)) - {10, 13}))
        if c == '\\':
            return ('set', frozenset(self.escape()))
        self.eat()
        if ord(c) > 127:
            raise ValueError("non-ascii literal")
        return ('set', frozenset({ord(c)}))

    def cls(self):
        self.eat('[')
        neg = False
        if self.peek() == '^':
            neg = True
            self.eat()
        out = set()
        first = True
        while True:
            c = self.peek()
            if c is None:
                raise ValueError("unterminated class")
            if c == ']' and not first:
                self.eat()
                break
            first = False
            if c == '\\':
                lo = self.escape()
                if len(lo) != 1:
                    out |= lo
                    continue
                lo = next(iter(lo))
            else:
                self.eat()
                lo = ord(c)
            if self.peek() == '-' and self.i + 1 < len(self.s) and self.s[self.i + 1] != ']':
                self.eat('-')
                c2 = self.peek()
                if c2 == '\\':
                    hi = self.escape()
                    assert len(hi) == 1
                    hi = next(iter(hi))
                else:
                    self.eat()
                    hi = ord(c2)
                if hi < lo:
                    raise ValueError("bad range")
                out |= set(range(lo, hi + 1))
            else:
                out.add(lo)
        if neg:
            out = set(range(256)) - out
        return out

# ---------------------------------------------------------------- NFA (Thompson) -> DFA -> minimal DFA

class NFA:
    def __init__(self):
        self.eps = []   # state -> list of states
        self.tr = []    # state -> list of (frozenset bytes, target)

    def new(self):
        self.eps.append([])
        self.tr.append([])
        return len(self.eps) - 1

    def build(self, ast):
        """returns (start, end)"""
        k = ast[0]
        if k == 'set':
            a, b = self.new(), self.new()
            self.tr[a].append((ast[1], b))
            return a, b
        if k == 'cat':
            a = self.new()
            cur = a
            for it in ast[1]:
                s, e = self.build(it)
                self.eps[cur].append(s)
                cur = e
            return a, cur
        if k == 'alt':
            a, b = self.new(), self.new()
            for it in ast[1]:
                s, e = self.build(it)
                self.eps[a].append(s)
                self.eps[e].append(b)
            return a, b
        if k == 'rep':
            _, sub, lo, hi = ast
            a = self.new()
            cur = a
            for _ in range(lo):
                s, e = self.build(sub)
                self.eps[cur].append(s)
                cur = e
            if hi is None:
                s, e = self.build(sub)
                loop = self.new()
                self.eps[cur].append(loop)
                self.eps[loop].append(s)
                self.eps[e].append(loop)
                return a, loop
            end = self.new()
            self.eps[cur].append(end)
            for _ in range(hi - lo):
                s, e = self.build(sub)
                self.eps[cur].append(s)
                self.eps[e].append(end)
                cur = e
            return a, end
        raise ValueError(k)


def compile_regex(text):
    """returns dict(cls=[256 class ids], ncls, trans=[[state]*ncls], accept=[bool], start=0, dead=index or None,
    uses_dot, uses_d)"""
    p = P(text)
    ast = p.parse()
    n = NFA()
    s, e = n.build(ast)

    def closure(states):
        st = list(states)
        seen = set(states)
        while st:
            x = st.pop()
            for y in n.eps[x]:
                if y not in seen:
                    seen.add(y)
                    st.append(y)
        return frozenset(seen)

    start = closure({s})
    dstates = {start: 0}
    order = [start]
    dtrans = []
    i = 0
    while i < len(order):
        cur = order[i]
        row = []
        # group by byte
        for b in range(256):
            tgt = set()
            for x in cur:
                for (bs, y) in n.tr[x]:
                    if b in bs:
                        tgt.add(y)
            t = closure(tgt) if tgt else frozenset()
            if t not in dstates:
                dstates[t] = len(order)
                order.append(t)
            row.append(dstates[t])
        dtrans.append(row)
        i += 1
    accept = [e in st for st in order]
    nst = len(order)
    # Moore minimisation
    part = [1 if a else 0 for a in accept]
    while True:
        sig = {}
        newpart = []
        for q in range(nst):
            key = (part[q], tuple(part[dtrans[q][b]] for b in range(256)))
            if key not in sig:
                sig[key] = len(sig)
            newpart.append(sig[key])
        if len(sig) == len(set(part)):
            part = newpart
            break
        part = newpart
    # renumber so that start is 0
    remap = {}
    def rid(c):
        if c not in remap:
            remap[c] = len(remap)
        return remap[c]
    rid(part[0])
    for q in range(nst):
        rid(part[q])
    m = len(remap)
    mtrans = [None] * m
    maccept = [False] * m
    for q in range(nst):
        c = remap[part[q]]
        if mtrans[c] is None:
            mtrans[c] = [remap[part[dtrans[q][b]]] for b in range(256)]
            maccept[c] = accept[q]
    # byte classes
    cols = {}
    cls = []
    for b in range(256):
        col = tuple(mtrans[q][b] for q in range(m))
        if col not in cols:
            cols[col] = len(cols)
        cls.append(cols[col])
    ncls = len(cols)
    rep_byte = {}
    for b in range(256):
        rep_byte.setdefault(cls[b], b)
    trans = [[mtrans[q][rep_byte[c]] for c in range(ncls)] for q in range(m)]
    dead = None
    for q in range(m):
        if not maccept[q] and all(t == q for t in trans[q]):
            dead = q
    return dict(cls=cls, ncls=ncls, trans=trans, accept=maccept, nstates=m, dead=dead,
                uses_dot=p.uses_dot, uses_d=p.uses_d, rep_byte=rep_byte, regex=text)


def dfa_match(d, bs):
    q = 0
    for b in bs:
        q = d['trans'][q][d['cls'][b]]
    return d['accept'][q]


def in_domain(d, bs):
    if d['uses_dot'] and any(b in (10, 13) for b in bs):
        return False
    if d['uses_d'] and any(b >= 0x80 for b in bs):
        return False
    return True


def cover_strings(d, extra=2):
    """transition cover x short suffixes: strings that exercise every DFA transition (for the oracle self test)"""
    m = d['nstates']
    # shortest access string per state (BFS over class representatives)
    acc = {0: b''}
    queue = [0]
    while queue:
        q = queue.pop(0)
        for c in range(d['ncls']):
            t = d['trans'][q][c]
            if t not in acc:
                acc[t] = acc[q] + bytes([d['rep_byte'][c]])
                queue.append(t)
    reps = [d['rep_byte'][c] for c in range(d['ncls'])]
    # additionally, boundary bytes of each class
    bounds = set()
    for b in range(256):
        if b == 0 or d['cls'][b] != d['cls'][b - 1]:
            bounds.add(b)
            if b > 0:
                bounds.add(b - 1)
    bounds.add(255)
    out = set()
    for q, a in acc.items():
        for suf_len in range(extra + 1):
            for suf in itertools.product(reps, repeat=suf_len):
                out.add(a + bytes(suf))
        for b in bounds:
            out.add(a + bytes([b]))
    return sorted(out)


def py_regex(text):
    # python bytes regex with the same reading; `.` excludes \n only in python -> strings with \r are outside the domain
    return re.compile(text.encode('ascii'))


def selftest(text):
    """returns (n_strings_compared, list_of_disagreements) between the compiled DFA and python's re.fullmatch"""
    d = compile_regex(text)
    rx = py_regex(text)
    bad = []
    n = 0
    for s in cover_strings(d):
        if not in_domain(d, s):
            continue
        n += 1
        if bool(rx.fullmatch(s)) != dfa_match(d, s):
            bad.append(s)
    return n, bad


def emit_rust(name, d):
    """Rust source of `pub fn <name>(s: &[u8]) -> bool` (reference matcher) and `pub fn <name>_dom(s) -> bool`"""
    m, k = d['nstates'], d['ncls']
    lines = []
    lines.append(f"// reference DFA generated from the published regex r\"{d['regex']}\": {m} states, {k} byte classes")
    lines.append(f"static {name.upper()}_CLS: [u8; 256] = [{', '.join(str(c) for c in d['cls'])}];")
    rows = ', '.join('[' + ', '.join(str(t) for t in row) + ']' for row in d['trans'])
    lines.append(f"static {name.upper()}_TR: [[u8; {k}]; {m}] = [{rows}];")
    lines.append(f"static {name.upper()}_ACC: [bool; {m}] = [{', '.join('true' if a else 'false' for a in d['accept'])}];")
    lines.append(f"pub fn {name}(s: &[u8]) -> bool {{")
    lines.append("    let mut q: usize = 0;")
    lines.append("    let mut i = 0;")
    lines.append("    while i < s.len() {")
    lines.append(f"        q = {name.upper()}_TR[q][{name.upper()}_CLS[s[i] as usize] as usize] as usize;")
    lines.append("        i += 1;")
    lines.append("    }")
    lines.append(f"    {name.upper()}_ACC[q]")
    lines.append("}")
    conds = []
    if d['uses_dot']:
        conds.append("b != 10 && b != 13")
    if d['uses_d']:
        conds.append("b < 0x80")
    cond = ' && '.join(conds) if conds else 'true'
    lines.append(f"pub fn {name}_dom(s: &[u8]) -> bool {{")
    lines.append("    let mut i = 0;")
    lines.append("    while i < s.len() {")
    lines.append("        let b = s[i];")
    lines.append(f"        if !({cond}) {{ return false; }}")
    lines.append("        i += 1;")
    lines.append("    }")
    lines.append("    true")
    lines.append("}")
    return '\n'.join(lines) + '\n'


PAT = re.compile(r'CharacterDataSpec::Pattern\s*\{\s*check_fn:\s*(\w+)\s*,\s*regex:\s*r"([^"]*)"\s*,\s*max_length:\s*(None|Some\((\d+)\))\s*\}')


def read_patterns(spec_path):
    """[(check_fn, regex, max_length)] in file order, duplicates kept"""
    src = open(spec_path, encoding='utf-8').read()
    out = []
    for m in PAT.finditer(src):
        out.append((m.group(1), m.group(2), int(m.group(4)) if m.group(4) else None))
    return out


if __name__ == '__main__':
    pats = read_patterns(sys.argv[1] if len(sys.argv) > 1 else '/repo/autosar-data-specification/src/specification.rs')
    for fn, rx, ml in pats:
        d = compile_regex(rx)
        n, bad = selftest(rx)
        print(fn, 'states', d['nstates'], 'classes', d['ncls'], 'maxlen', ml, 'selftest', n, 'bad', bad[:3])
