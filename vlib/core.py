"""Core of the solver-based checking driver: work dir preparation, Kani/CBMC runs, result parsing,
counterexample extraction (Kani concrete playback), native replay, evidence.

Every verdict is CBMC's (SAT, cadical) over the goto program Kani compiles from /repo's *current* working tree.
Concrete execution happens only to replay a solver counterexample natively before it is reported.
"""
import json
import os
import re
import shutil
import subprocess
import sys
import time

VERIF = os.path.dirname(os.path.dirname(os.path.abspath(__file__)))
REPO = os.environ.get('VERIF_REPO', '/repo')
SPEC_SRC = os.path.join(REPO, 'autosar-data-specification', 'src')
DATA_SRC = os.path.join(REPO, 'autosar-data', 'src')
CRATES = {'spec': 'autosar-data-specification', 'data': 'autosar-data'}
HARNESS_FILES = {'spec': ['spec_lib.rs'], 'data': ['lexer.rs', 'parser.rs', 'chardata.rs', 'element.rs']}
ALL_FILES = ['spec_lib.rs', 'lexer.rs', 'parser.rs', 'chardata.rs', 'element.rs']


QUAL = {}   # harness short name -> fully qualified name (for --exact)
MODPATH = {'spec_lib.rs': 'verif_harness::', 'lexer.rs': 'lexer::verif_harness::', 'parser.rs': 'parser::verif_harness::',
           'chardata.rs': 'chardata::verif_harness::', 'element.rs': 'element::verif_harness::'}


class Harness:
    """One solver query: a #[kani::proof] function instantiated from a macro in /verif/harness/<file>."""

    def __init__(self, name, crate, file, inst, functions, bound, claim, role='main', timeout=900, group=None,
                 expect_cover=True, unwindset=None):
        self.name = name          # rust fn name
        self.crate = crate        # 'spec' | 'data'
        self.file = file          # harness file that receives the instantiation line
        self.inst = inst          # rust source line(s) instantiating the harness ('' if the fn is written out in the file)
        self.functions = functions  # real functions encoded (symbolically executed)
        self.bound = bound        # human readable bound
        self.claim = claim        # what is asserted
        self.role = role          # 'main' | 'known:<key>' (witness of a recorded finding; expected to fail)
        self.timeout = timeout
        self.group = group
        self.expect_cover = expect_cover
        # [(regex on the loop's function name, 'outermost'|'innermost', k)]: per-loop unwind bound, resolved to CBMC loop ids
        # with `cbmc --show-loops` on the goto binary Kani generates for this harness (a harness with unwindset runs alone)
        self.unwindset = unwindset or []
        self.result = None
        QUAL[name] = MODPATH[file] + name


class E2Spec:
    """One decision problem for engine E2 (MIR symbolic executor, /verif/mirsym): `cls` of mirsym/e2defs.py with params."""

    def __init__(self, name, cls, params, functions, bound, claim, native=None, parts=1, timeout=900, role='main', known_keys=()):
        self.name = name
        self.cls = cls
        self.params = dict(params)
        self.functions = functions
        self.bound = bound
        self.claim = claim
        self.native = native      # (crate key, native replay fn name, harness file)
        self.parts = parts        # the input space is split into `parts` classes (first byte mod parts), one process each
        self.timeout = timeout
        self.role = role
        self.known_keys = tuple(known_keys)


def dump_mir(work, crates=('data',)):
    """MIR of /repo's current working tree (optimized MIR as printed by -Zunpretty=mir) -> <work>/mir/<crate>.mir"""
    md = os.path.join(work, 'mir')
    os.makedirs(md, exist_ok=True)
    errs = {}
    for c in crates:
        out = os.path.join(md, f'{c}.mir')
        src = os.path.join(REPO, CRATES[c], 'src', 'lib.rs')
        env = dict(os.environ)
        env['CARGO_NET_OFFLINE'] = 'true'
        env.pop('RUSTFLAGS', None)
        # rustc only re-emits the MIR when the crate is rebuilt: use a fresh target dir per run
        tdir = os.path.join(work, 'target-mir')
        cmd = ['cargo', '+nightly', 'rustc', '--offline', '-p', CRATES[c], '--lib', '--target-dir', tdir, '--',
               '-Zunpretty=mir', '-C', 'debug-assertions=off', '-C', 'overflow-checks=on']
        with open(out, 'w') as f:
            p = subprocess.run(cmd, cwd=REPO, env=env, stdout=f, stderr=subprocess.PIPE, text=True)
        if p.returncode != 0 or os.path.getsize(out) < 1000:
            errs[c] = p.stderr[-2000:]
    shutil.rmtree(os.path.join(work, 'target-mir'), ignore_errors=True)
    return md, errs


def validate_e2(work, seed=0, spec_entries=None):
    """translator validation of engine E2 (see mirsym/e2_validate.py): same concrete inputs through the native build and the
    MIR executor. returns dict(ok, compared, disagreements, ...). spec_entries: [[table index, validator fn]] -> validate the
    spec-crate validators instead of the autosar-data kernels"""
    cases = os.path.join(work, 'e2-oracle-cases.txt')
    nat = os.path.join(work, 'e2-oracle-native.txt')
    tool = os.path.join(VERIF, 'mirsym', 'e2_validate.py')
    crate = 'spec' if spec_entries else 'data'
    if spec_entries == 'names':
        p = subprocess.run(['python3-vt', tool, 'gennames', cases, str(seed)], capture_output=True, text=True, env=dict(os.environ, VERIF_REPO=REPO))
    elif spec_entries:
        p = subprocess.run(['python3-vt', tool, 'genspec', cases, str(seed), json.dumps(spec_entries)], capture_output=True, text=True)
    else:
        p = subprocess.run(['python3-vt', tool, 'gen', cases, str(seed)], capture_output=True, text=True)
    if p.returncode != 0:
        return dict(ok=False, error='case generation failed: ' + p.stderr[-500:])
    if os.path.exists(nat):
        os.remove(nat)
    e = env_for(work)
    e['VERIF_ORACLE_IN'] = cases
    e['VERIF_ORACLE_OUT'] = nat
    cmd = ['cargo', 'test', '--offline', '-p', CRATES[crate], '--lib', '--target-dir', os.path.join(work, 'target-native'),
           'verif_oracle', '--', '--nocapture', '--test-threads', '1']
    try:
        b = subprocess.run(cmd[:cmd.index('verif_oracle')] + ['--no-run'], cwd=REPO, env=e, capture_output=True, text=True, timeout=1200)
        q = subprocess.run(cmd, cwd=REPO, env=e, capture_output=True, text=True, timeout=240)
    except subprocess.TimeoutExpired:
        subprocess.run(['pkill', '-9', '-f', os.path.join(work, 'target-native', 'debug/deps/autosar_data')], capture_output=True)
        return dict(ok=False, error='native oracle timed out (the real functions do not terminate on one of the validation inputs)')
    if q.returncode != 0 or not os.path.exists(nat):
        return dict(ok=False, error='native oracle failed: ' + (q.stdout + q.stderr)[-1500:])
    if spec_entries == 'names':
        rcmd = ['python3-vt', tool, 'runnames', os.path.join(work, 'mir'), cases, nat]
    elif spec_entries:
        rcmd = ['python3-vt', tool, 'runspec', os.path.join(work, 'mir'), cases, nat, json.dumps(spec_entries)]
    else:
        rcmd = ['python3-vt', tool, 'run', os.path.join(work, 'mir'), cases, nat]
    r = subprocess.run(rcmd, capture_output=True, text=True, timeout=1200, env=dict(os.environ, VERIF_REPO=REPO))
    try:
        return json.loads(r.stdout.strip().split('\n')[-1])
    except Exception:
        return dict(ok=False, error='validator crashed: ' + (r.stdout + r.stderr)[-1500:])


def run_e2(work, spec, known, part=None):
    """run one E2 harness (one partition) in its own process; returns the result dict"""
    params = dict(spec.params)
    params['_known'] = sorted(known)
    params['_name'] = spec.name
    if part is not None:
        params['part'] = list(part)
    tag = spec.name + (f'.p{part[0]}' if part is not None else '')
    out = os.path.join(work, f'e2-{tag}.json')
    if os.path.exists(out):
        os.remove(out)
    cmd = ['python3-vt', os.path.join(VERIF, 'mirsym', 'run_e2.py'), os.path.join(work, 'mir'), spec.cls, json.dumps(params), out]
    env = dict(os.environ)
    env['VERIF_REPO'] = REPO
    try:
        p = subprocess.run(cmd, capture_output=True, text=True, timeout=spec.timeout, env=env)
        if os.path.exists(out):
            return json.load(open(out))
        return dict(harness=spec.name, status='inconclusive', violations=[], known_hits={}, covers={}, stats={},
                    inconclusive=['engine error: ' + (p.stderr or p.stdout)[-1500:]], functions_executed=[], models_used=[])
    except subprocess.TimeoutExpired:
        return dict(harness=spec.name, status='inconclusive', violations=[], known_hits={}, covers={}, stats={},
                    inconclusive=[f'timeout after {spec.timeout}s'], functions_executed=[], models_used=[])


def merge_e2(results):
    r0 = dict(results[0])
    for r in results[1:]:
        r0['violations'] = (r0['violations'] + r['violations'])[:8]
        for k, v in r['known_hits'].items():
            r0['known_hits'].setdefault(k, v)
        r0['inconclusive'] = sorted(set(r0['inconclusive']) | set(r['inconclusive']))
        r0['hang'] = bool(r0.get('hang')) or bool(r.get('hang'))
        for k, v in r.get('covers', {}).items():
            r0['covers'][k] = r0['covers'].get(k, 0) + v
        for k, v in r.get('stats', {}).items():
            if isinstance(v, (int, float)):
                r0['stats'][k] = round(r0['stats'].get(k, 0) + v, 3) if k != 'wall_s' else max(r0['stats'].get(k, 0), v)
        r0['functions_executed'] = sorted(set(r0['functions_executed']) | set(r['functions_executed']))
        r0['models_used'] = sorted(set(r0['models_used']) | set(r['models_used']))
    if r0['violations']:
        r0['status'] = 'fail'
    elif r0['inconclusive']:
        r0['status'] = 'inconclusive'
    else:
        r0['status'] = 'pass'
    return r0


def log(*a):
    print(*a, flush=True)


def env_for(workdir, nocover=False):
    e = dict(os.environ)
    e['AUTOSAR_DATA_VERIF_DIR'] = workdir
    rf = e.get('RUSTFLAGS', '')
    if 'autosar_data_verif' not in rf:
        e['RUSTFLAGS'] = (rf + ' --cfg autosar_data_verif').strip()
    if nocover:
        e['RUSTFLAGS'] += ' --cfg verif_nocover'
    e['CARGO_NET_OFFLINE'] = 'true'
    e['CARGO_TERM_COLOR'] = 'never'
    return e


def prepare_workdir(tag, gen_code, harnesses):
    """gen_code: {file: extra rust source}; returns workdir. Layout: <work>/harness/*.rs"""
    base = os.path.join(VERIF, '.work')
    os.makedirs(base, exist_ok=True)
    work = os.path.join(base, tag)
    hd = os.path.join(work, 'harness')
    if os.path.isdir(hd):
        shutil.rmtree(hd)
    os.makedirs(hd, exist_ok=True)
    shutil.copy(os.path.join(VERIF, 'harness', 'vk.rs'), os.path.join(hd, 'vk.rs'))
    for f in ALL_FILES:
        src = open(os.path.join(VERIF, 'harness', f)).read()
        parts = [src, '\n// ---- generated by run_check.py from /repo\'s current tree ----\n']
        parts.append(gen_code.get(f, ''))
        names = []
        for h in harnesses:
            if h.file == f:
                if h.inst:
                    parts.append(h.inst.rstrip() + '\n')
                names.append(h.name)
        # native replay dispatcher
        arms = '\n'.join(f'        "{n}" => {n}(),' for n in names)
        parts.append(f'''
#[cfg(all(test, not(kani)))]
#[test]
fn verif_replay() {{
    let Some((name, vals)) = vk::read_replay_file() else {{ return; }};
    vk::load_replay(vals);
    match name.as_str() {{
{arms}
        _ => {{}}
    }}
}}
''')
        open(os.path.join(hd, f), 'w').write(''.join(parts))
    return work


RE_CHECKING = re.compile(r'^(?:Thread (\d+): )?Checking harness (\S+?)\.\.\.')
RE_THREAD = re.compile(r'^Thread (\d+):\s*$')
RE_FAILED_OF = re.compile(r'\*\* (\d+) of (\d+) failed')
RE_COVER = re.compile(r'\*\* (\d+) of (\d+) cover properties satisfied')
RE_TIME = re.compile(r'Verification Time: ([0-9.]+)s')


def parse_kani_output(text):
    """returns {harness_short_name: dict(status, failed, checks, cover_sat, cover_total, time, failed_checks[])}"""
    res = {}
    cur_by_thread = {}
    cur_thread = None
    cur = None
    lines = text.splitlines()
    i = 0
    pending_fail = None
    while i < len(lines):
        ln = lines[i]
        m = RE_CHECKING.match(ln)
        if m:
            th = m.group(1) or '0'
            name = m.group(2).split('::')[-1]
            cur_by_thread[th] = name
            res.setdefault(name, dict(status='unknown', failed=None, checks=None, cover_sat=None, cover_total=None,
                                      time=None, failed_checks=[], raw=[]))
            if m.group(1) is None:
                cur = name
            i += 1
            continue
        m = RE_THREAD.match(ln)
        if m:
            cur = cur_by_thread.get(m.group(1))
            i += 1
            continue
        if cur is not None and cur in res:
            r = res[cur]
            r['raw'].append(ln)
            m = RE_FAILED_OF.search(ln)
            if m:
                r['failed'] = int(m.group(1))
                r['checks'] = int(m.group(2))
            m = RE_COVER.search(ln)
            if m:
                r['cover_sat'] = int(m.group(1))
                r['cover_total'] = int(m.group(2))
            if ln.startswith('Failed Checks:'):
                desc = ln[len('Failed Checks:'):].strip()
                loc = ''
                if i + 1 < len(lines) and lines[i + 1].strip().startswith('File:'):
                    loc = lines[i + 1].strip()
                r['failed_checks'].append((desc, loc))
            if 'VERIFICATION:- SUCCESSFUL' in ln:
                r['status'] = 'pass'
            elif 'VERIFICATION:- FAILED' in ln:
                # "CBMC failed" before the verdict = the back end crashed / was killed: not a counterexample
                r['status'] = 'error' if r.get('cbmc_failed') else 'fail'
            if 'CBMC timed out' in ln or 'timed out' in ln.lower():
                r['status'] = 'timeout'
            if 'run out of memory' in ln:
                r['status'] = 'out-of-memory'
            if 'CBMC failed' in ln:
                r['cbmc_failed'] = True
            if 'CBMC failed' in ln or 'Status: ERROR' in ln:
                if r['status'] not in ('timeout', 'out-of-memory'):
                    r['status'] = 'error'
            m = RE_TIME.search(ln)
            if m:
                r['time'] = float(m.group(1))
        i += 1
    for r in res.values():
        r['raw'] = '\n'.join(r['raw'][-40:])
    return res


def run_kani(work, crate, names, jobs, timeout_s, extra_args=(), log_name='kani', mem_kb=None, overall_timeout=None,
             nocover=False, tsuffix='', cbmc_args=()):
    """one `cargo kani` invocation for the given harness names; returns (results, raw_output, wall)"""
    tdir = os.path.join(work, 'target-kani-' + crate + tsuffix + ('-nocover' if nocover else ''))
    cmd = ['cargo', 'kani', '-p', CRATES[crate], '--target-dir', tdir, '--output-format', 'terse', '--exact',
           '-Z', 'unstable-options', '-Z', 'stubbing', '--harness-timeout', f'{int(timeout_s)}s']
    if jobs and jobs > 1 and '--concrete-playback=print' not in extra_args:
        cmd += ['-j', str(jobs)]
    for n in names:
        cmd += ['--harness', QUAL.get(n, 'verif_harness::' + n)]
    cmd += list(extra_args)
    if cbmc_args:
        cmd += ['--cbmc-args'] + list(cbmc_args)   # must be last
    # CBMC 6.11 overflows its stack in "Removal of function pointers" on the big string tables: unlimited stack.
    vm = f'ulimit -v {mem_kb}; ' if mem_kb else ''
    shell = f'ulimit -s unlimited; {vm}exec ' + ' '.join("'" + c + "'" for c in cmd)
    t0 = time.time()
    logf = os.path.join(work, f'{log_name}.log')
    with open(logf, 'w') as lf:
        p = subprocess.Popen(['bash', '-c', shell], cwd=REPO, env=env_for(work, nocover), stdout=lf, stderr=subprocess.STDOUT)
        try:
            p.wait(timeout=overall_timeout)
        except subprocess.TimeoutExpired:
            kill_tree(p.pid)
            p.wait()
    wall = time.time() - t0
    text = open(logf, errors='replace').read()
    res = parse_kani_output(text)
    compile_error = ('error: could not compile' in text) or ('error[E' in text) or ('Failed to execute cargo' in text)
    return res, text, wall, compile_error


def kill_tree(pid):
    try:
        out = subprocess.run(['ps', '-o', 'pid=', '--ppid', str(pid)], capture_output=True, text=True).stdout.split()
        for c in out:
            kill_tree(int(c))
        os.kill(pid, 9)
    except Exception:
        pass


RE_LOOP = re.compile(r'^Loop (\S+):\n\s+file (\S+) line (\d+)(?: column \d+)? function (.*)$', re.M)


def resolve_unwindsets(work, crate, harnesses, timeout_s=900, tsuffix=''):
    """compile only (one invocation for all given harnesses), list the loops of each harness' goto binary with
    `cbmc --show-loops`, map (function regex, which, k) to CBMC loop ids. returns {harness name: ([label:k], error)}"""
    res, text, wall, cerr = run_kani(work, crate, [h.name for h in harnesses], 1, timeout_s, extra_args=['--only-codegen'],
                                     log_name='codegen-special', tsuffix=tsuffix)
    out = {}
    if cerr:
        return {h.name: (None, 'build failed: ' + text[-2000:]) for h in harnesses}
    tdir = os.path.join(work, 'target-kani-' + crate + tsuffix)
    outs = []
    for root, _dirs, files in os.walk(os.path.join(tdir, 'kani')):
        for f in files:
            if f.endswith('.out'):
                outs.append(os.path.join(root, f))
    for h in harnesses:
        cands = [f for f in outs if f.endswith(f'{len(h.name)}{h.name}.out')]
        if not cands:
            out[h.name] = (None, 'goto binary of the harness not found')
            continue
        gb = max(cands, key=os.path.getmtime)
        p = subprocess.run(['bash', '-c', f"ulimit -s unlimited; exec cbmc --show-loops '{gb}'"], capture_output=True, text=True, timeout=600)
        loops = [(m.group(1), m.group(2), int(m.group(3)), m.group(4)) for m in RE_LOOP.finditer(p.stdout)]
        labs = []
        err = ''
        for fn_re, which, k in h.unwindset:
            sel = [l for l in loops if re.search(fn_re, l[3])]
            if not sel:
                err = f'no loop found in a function matching {fn_re!r} ({len(loops)} loops listed)'
                break
            sel.sort(key=lambda l: l[2])
            lab = sel[0] if which == 'outermost' else sel[-1]
            labs.append(f'{lab[0]}:{k}')
        out[h.name] = (None, err) if err else (labs, '')
    return out


RE_VEC = re.compile(r'^\s*vec!\[([0-9, ]*)\],?\s*$')


def playback_values(work, crate, name, timeout_s, cbmc_args=()):
    """re-run one failing harness with Kani's concrete playback and return the recorded values (list of byte lists)"""
    res, text, wall, cerr = run_kani(work, crate, [name], 1, timeout_s,
                                     extra_args=['-Z', 'concrete-playback', '--concrete-playback=print'],
                                     log_name='playback-' + name, nocover=True, cbmc_args=cbmc_args)
    # take the first generated test that belongs to a failed check (not to a cover)
    vals = []
    started = False
    skip = False
    for ln in text.splitlines():
        if ln.startswith('/// Check for'):
            skip = '`cover`' in ln
        if skip:
            continue
        if 'let concrete_vals' in ln:
            if started:
                break
            started = True
            continue
        if started:
            m = RE_VEC.match(ln)
            if m:
                body = m.group(1).strip()
                vals.append([int(x) for x in body.split(',') if x.strip()] if body else [])
            elif 'concrete_playback_run' in ln:
                break
    return vals if started else None


def write_replay_file(path, name, vals, comment=''):
    os.makedirs(os.path.dirname(path), exist_ok=True)
    with open(path, 'w') as f:
        f.write(name + '\n')
        for c in comment.splitlines():
            f.write('# ' + c + '\n')
        for v in vals:
            f.write(','.join(str(b) for b in v) + '\n')


def native_replay(work, crate, replay_path, release=False, timeout=1200, hang=False):
    """run the same harness body natively against the real functions. returns (reproduced, detail).
    hang=True: the counterexample claims non-termination; the test binary is built first and then run with a 60 s limit -
    not finishing within it reproduces the counterexample"""
    tdir = os.path.join(work, 'target-native')
    cmd = ['cargo', 'test', '--offline', '-p', CRATES[crate], '--lib', '--target-dir', tdir]
    if release:
        cmd.append('--release')
    e = env_for(work)
    e['VERIF_REPLAY'] = replay_path
    e['RUST_BACKTRACE'] = '0'
    if hang:
        b = subprocess.run(cmd + ['--no-run'], cwd=REPO, env=e, capture_output=True, text=True, timeout=timeout)
        if b.returncode != 0:
            return False, 'native replay build failed: ' + (b.stdout + b.stderr)[-1500:]
    cmd += ['verif_replay', '--', '--nocapture', '--test-threads', '1']
    try:
        p = subprocess.run(cmd, cwd=REPO, env=e, capture_output=True, text=True, timeout=60 if hang else timeout)
    except subprocess.TimeoutExpired:
        if hang:
            subprocess.run(['pkill', '-9', '-f', os.path.join(tdir, 'debug/deps/autosar_data')], capture_output=True)
            return True, 'native run did not terminate within 60 s'
        return False, 'native replay timed out'
    out = p.stdout + p.stderr
    if 'error: could not compile' in out or 'error[E' in out:
        return False, 'native replay build failed: ' + out[-1500:]
    if p.returncode == 0:
        return False, 'native run passed (counterexample does not reproduce)'
    if 'VK_ASSUME_VIOLATED' in out or 'VK_REPLAY_EXHAUSTED' in out or 'VK_REPLAY_SHAPE' in out:
        return False, 'replay values do not fit the harness (' + last_panic(out) + ')'
    return True, last_panic(out)


def last_panic(out):
    m = re.findall(r"panicked at ([^\n]*)\n([^\n]*)", out)
    if m:
        return (m[-1][0] + ' ' + m[-1][1]).strip()[:400]
    return out[-300:]


def decode_vals(vals):
    """best-effort printable rendering of recorded bytes: consecutive 1-byte values form the input buffer"""
    buf = bytes(v[0] for v in vals if len(v) == 1)
    others = [int.from_bytes(bytes(v), 'little') for v in vals if len(v) != 1]
    return buf, others


def cleanup_workdir(work, keep_logs=True):
    for d in os.listdir(work):
        p = os.path.join(work, d)
        if d.startswith('target-'):
            shutil.rmtree(p, ignore_errors=True)


def load_known_findings():
    p = os.path.join(VERIF, 'known_findings.json')
    if not os.path.exists(p):
        return []
    return json.load(open(p)).get('findings', [])
