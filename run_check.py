#!/usr/bin/env python3
"""run_check.py <PROPERTY> --tier quick|thorough

Decides one property of /verif/properties.jsonl by solver-based checking of the real code of /repo's current working tree:
  E1  Kani -> CBMC -> SAT on the compiled crate (in-crate proof harnesses through guarded hooks)
  E2  symbolic execution of rustc's MIR of the crate (mirsym/, z3): all feasible paths of the real functions' MIR
See DESIGN.md.

exit 0  every harness was decided by a solver and held (recorded known findings print KNOWN-FINDING lines)
exit 1  a solver counterexample reproduced natively against the real code: VIOLATION property=<id> replay=<path>
exit 2  inconclusive (timeout / out of memory / tool error / vacuous harness / unsupported construct /
        counterexample that does not reproduce)
"""
import argparse
import concurrent.futures
import importlib
import json
import os
import sys
import threading
import time

sys.path.insert(0, os.path.dirname(os.path.abspath(__file__)))
from vlib import core  # noqa: E402
from vlib.core import Harness, E2Spec  # noqa: E402


def replay_only(path):
    """re-run a stored counterexample natively: python3 run_check.py --replay <file>"""
    meta = {}
    for ln in open(path):
        for k in ('crate', 'property', 'tier'):
            if ln.startswith(f'# {k}='):
                meta[k] = ln.split('=', 1)[1].strip()
    pid = meta.get('property')
    tier = meta.get('tier', 'quick')
    mod = importlib.import_module('checks.' + pid.lower())
    known = {f['key'] for f in core.load_known_findings() if f.get('status', 'open') == 'open'}
    harnesses, gen_code, info = mod.build(tier, known)
    work = core.prepare_workdir(f'{pid}-replay', gen_code, [h for h in harnesses if isinstance(h, Harness)])
    ok, detail = core.native_replay(work, meta.get('crate', 'data'), os.path.abspath(path))
    print(('REPRODUCED: ' if ok else 'NOT REPRODUCED: ') + detail)
    core.cleanup_workdir(work)
    return 1 if ok else 0


def main():
    ap = argparse.ArgumentParser()
    ap.add_argument('property', nargs='?')
    ap.add_argument('--tier', default=os.environ.get('VERIF_TIER', 'quick'), choices=['quick', 'thorough'])
    ap.add_argument('--jobs', type=int, default=int(os.environ.get('VERIF_JOBS', '16')))
    ap.add_argument('--only', default=None, help='substring filter on harness names (debugging; evidence is marked partial)')
    ap.add_argument('--keep', action='store_true', help='keep build output in .work')
    ap.add_argument('--replay', default=None)
    ap.add_argument('--tag', default=None)
    args = ap.parse_args()
    if args.replay:
        sys.exit(replay_only(args.replay))
    pid = args.property.upper()
    tier = args.tier
    seed = int(os.environ.get('VERIF_SEED', '0') or 0)
    t0 = time.time()
    mod = importlib.import_module('checks.' + pid.lower())
    findings = core.load_known_findings()
    known = {f['key'] for f in findings if f.get('status', 'open') == 'open' and f['property'] == pid}
    all_h, gen_code, info = mod.build(tier, known)
    if args.only:
        all_h = [h for h in all_h if args.only in h.name or getattr(h, 'role', '') == 'native']
    rust_h = [h for h in all_h if isinstance(h, Harness)]
    harnesses = [h for h in rust_h if h.role != 'native']       # decided by Kani/CBMC
    e2specs = [h for h in all_h if isinstance(h, E2Spec)]        # decided by the MIR symbolic executor
    tag = args.tag or f'{pid}-{tier}'
    work = core.prepare_workdir(tag, gen_code, rust_h)
    core.log(f'[{pid}] tier={tier} kani harnesses={len(harnesses)} mir harnesses={len(e2specs)} work={work}')

    by_crate = {}
    for h in harnesses:
        by_crate.setdefault(h.crate, []).append(h)
    results = {}
    compile_errors = {}
    cbmc_args_of = {}
    e2results = {}
    e2validation = {}
    mem_kb = info.get('mem_kb', 40 * 1024 * 1024)

    def run_group(crate, g, jobs, to, tsuffix, label):
        res, text, wall, cerr = core.run_kani(work, crate, [h.name for h in g], jobs, to, log_name=f'kani-{crate}-{label}',
                                              mem_kb=mem_kb, overall_timeout=info.get('overall_timeout'), tsuffix=tsuffix)
        core.log(f'[{pid}] cargo kani -p {core.CRATES[crate]} ({label}): {len(g)} harnesses, wall {wall:.0f}s')
        if cerr:
            compile_errors[crate] = text[-3000:]
        for h in g:
            results[h.name] = res.get(h.name)

    def run_special(crate, g, tsuffix, jobs):
        # harnesses with per-loop unwind bounds: compile, resolve the loop ids on the goto binaries, then verify;
        # harnesses that resolve to the same CBMC arguments share one invocation
        resolved = core.resolve_unwindsets(work, crate, g, tsuffix=tsuffix)
        by_args = {}
        for h in g:
            labs, why = resolved.get(h.name, (None, 'not resolved'))
            if labs is None:
                results[h.name] = dict(status='error', failed_checks=[], raw='unwindset resolution failed: ' + why)
                continue
            cbmc_args = ('--unwindset', ','.join(labs))
            cbmc_args_of[h.name] = cbmc_args
            h.bound += f'; per-loop bound --unwindset {",".join(labs)}'
            by_args.setdefault(cbmc_args, []).append(h)
        for i, (cbmc_args, hh) in enumerate(by_args.items()):
            to = max(h.timeout for h in hh)
            res, text, wall, cerr = core.run_kani(work, crate, [h.name for h in hh], min(jobs, len(hh)), to,
                                                  log_name=f'kani-{crate}-special{i}', mem_kb=mem_kb, tsuffix=tsuffix, cbmc_args=cbmc_args)
            core.log(f'[{pid}] cargo kani -p {core.CRATES[crate]} ({len(hh)} harnesses, {" ".join(cbmc_args)}): wall {wall:.0f}s')
            if cerr:
                compile_errors[crate] = text[-3000:]
            for h in hh:
                results[h.name] = res.get(h.name)

    def run_e2_all(jobs):
        crates = sorted({c for s in e2specs for c in s.params.get('_crates', ['data'])})
        md, errs = core.dump_mir(work, crates)
        if errs:
            for s in e2specs:
                e2results[s.name] = dict(harness=s.name, status='inconclusive', violations=[], known_hits={}, covers={}, stats={},
                                         inconclusive=['MIR dump failed: ' + json.dumps(errs)[-1500:]], functions_executed=[], models_used=[])
            return
        tasks = []
        with concurrent.futures.ThreadPoolExecutor(max_workers=max(1, jobs)) as pool:
            vfut = pool.submit(core.validate_e2, work, seed, info.get('e2_spec_entries'))
            for s in e2specs:
                if s.parts > 1:
                    futs = [pool.submit(core.run_e2, work, s, known, (i, s.parts)) for i in range(s.parts)]
                else:
                    futs = [pool.submit(core.run_e2, work, s, known, None)]
                tasks.append((s, futs))
            for s, futs in tasks:
                rs = [f.result() for f in futs]
                e2results[s.name] = core.merge_e2(rs)
                st = e2results[s.name]
                core.log(f"[{pid}] mirsym {s.name}: {st['status']} paths={st['stats'].get('paths')} solver_checks={st['stats'].get('solver_checks')} wall={st['stats'].get('wall_s')}s")
            v = vfut.result()
            e2validation.update(v)
            core.log(f"[{pid}] mirsym translator validation: ok={v.get('ok')} compared={v.get('compared')} disagreements={v.get('n_disagreements')} {v.get('error', '')}")
            if not v.get('ok'):
                # a pass of an executor that disagrees with the native build proves nothing -> inconclusive.
                # a counterexample is still replayed natively below: the native run is the arbiter of a VIOLATION.
                for s in e2specs:
                    r = e2results[s.name]
                    if r['status'] != 'fail':
                        r['status'] = 'inconclusive'
                        r['inconclusive'] = ['translator validation failed (MIR executor disagrees with the native build): ' + json.dumps(v.get('disagreements') or v.get('error'))[:800]] + r.get('inconclusive', [])

    threads = []
    n_kani_jobs = args.jobs if not e2specs else max(2, args.jobs // 2)
    if not harnesses:
        n_kani_jobs = 0
    for crate, hs in by_crate.items():
        plain = [h for h in hs if not h.unwindset]
        special = [h for h in hs if h.unwindset]
        groups = {}
        for h in plain:
            groups.setdefault(h.group, []).append(h)
        ngroups = len(groups) + (1 if special else 0)
        share = max(1, n_kani_jobs // max(1, ngroups * len(by_crate)))
        for grp, g in groups.items():
            to = max(h.timeout for h in g)
            tsuffix = '' if grp is None else f'-{grp}'
            th = threading.Thread(target=run_group, args=(crate, g, max(1, min(share, len(g))), to, tsuffix, grp or 'main'))
            th.start()
            threads.append(th)
        if special:
            th = threading.Thread(target=run_special, args=(crate, special, '-special', share))
            th.start()
            threads.append(th)
    if e2specs:
        th = threading.Thread(target=run_e2_all, args=(max(1, args.jobs - n_kani_jobs),))
        th.start()
        threads.append(th)
    for th in threads:
        th.join()

    violations = []
    known_hits = []
    inconclusive = []
    passed = []
    hrep = []
    replay_dir = os.path.join(core.VERIF, 'replays', pid) if core.REPO == '/repo' else os.path.join(core.VERIF, '.work', 'replays-other', tag, pid)

    def replay_and_classify(entry, name, crate, vals, descs, buf_repr, others, role_key, native_name=None, hang=False):
        """native replay of a solver counterexample; returns after filing the entry under violations/known/inconclusive"""
        rp = os.path.join(replay_dir, f'{name}.replay')
        if len(violations) >= 3 and not (role_key and role_key in known):
            # three natively confirmed violations settle the verdict of this run: further counterexamples are kept as files only
            core.write_replay_file(rp, native_name or name, vals, f'property={pid}\ncrate={crate}\ntier={tier}\nharness={name}\nfailed: ' + '; '.join(descs[:4]) + f'\ninput={buf_repr}')
            entry['counterexample'] = dict(input=buf_repr, others=others, replay=rp, native='not replayed (verdict already settled by three confirmed violations)')
            entry['verdict'] = 'inconclusive: solver counterexample not replayed (three violations of this run are already confirmed natively)'
            inconclusive.append(entry)
            return
        comment = (f'property={pid}\ncrate={crate}\ntier={tier}\nharness={name}\nfailed: ' + '; '.join(descs[:4]) +
                   f'\ninput={buf_repr}\nother values={others}')
        core.write_replay_file(rp, native_name or name, vals, comment)
        ok, detail = core.native_replay(work, crate, rp, release=False, hang=hang)
        prof = 'dev'
        if not ok and not hang:
            ok2, detail2 = core.native_replay(work, crate, rp, release=True)
            if ok2:
                ok, detail, prof = True, detail2, 'release'
        entry['counterexample'] = dict(input=buf_repr, others=others, replay=rp, native=detail, profile=prof)
        if ok:
            if role_key and role_key in known:
                what = next(f['what'] for f in findings if f['key'] == role_key)
                entry['verdict'] = 'known finding reproduced'
                known_hits.append((role_key, what, entry))
            else:
                entry['verdict'] = 'VIOLATION (reproduced natively)'
                violations.append(entry)
        else:
            entry['verdict'] = 'inconclusive: counterexample does not reproduce natively (' + detail + ')'
            inconclusive.append(entry)

    # ---- Kani / CBMC results -------------------------------------------------------------------------
    for h in harnesses:
        r = results.get(h.name) or dict(status='missing', failed_checks=[], raw='')
        entry = dict(harness=h.name, engine='E1 Kani 0.68 / CBMC 6.11 / cadical', crate=core.CRATES[h.crate], role=h.role,
                     functions=h.functions, bound=h.bound, claim=h.claim, status=r['status'], checks=r.get('checks'),
                     failed=r.get('failed'), cover_sat=r.get('cover_sat'), cover_total=r.get('cover_total'), solver_s=r.get('time'))
        st = r['status']
        if st == 'pass':
            if h.expect_cover and r.get('cover_total') and r.get('cover_sat') != r.get('cover_total'):
                entry['verdict'] = 'inconclusive: vacuity witness unsatisfied (%s of %s covers)' % (r.get('cover_sat'), r.get('cover_total'))
                inconclusive.append(entry)
            else:
                entry['verdict'] = 'holds within bound'
                passed.append(entry)
                if h.role.startswith('known:'):
                    entry['verdict'] = 'holds within bound (recorded finding not observed)'
        elif st == 'fail':
            descs = [d for d, _ in r['failed_checks']]
            entry['failed_checks'] = [f'{d} @ {l}' for d, l in r['failed_checks']][:8]
            if descs and all('unwinding assertion' in d for d in descs):
                entry['verdict'] = 'inconclusive: unwinding bound too small'
                inconclusive.append(entry)
            else:
                vals = core.playback_values(work, h.crate, h.name, h.timeout, cbmc_args=cbmc_args_of.get(h.name, ()))
                if not vals:
                    entry['verdict'] = 'inconclusive: solver reported a failure but no counterexample values could be extracted'
                    inconclusive.append(entry)
                else:
                    buf, others = core.decode_vals(vals)
                    key = h.role[6:] if h.role.startswith('known:') else None
                    replay_and_classify(entry, h.name, h.crate, vals, descs, repr(buf), others, key)
        else:
            entry['verdict'] = f'inconclusive: {st}'
            entry['raw_tail'] = (r.get('raw') or '')[-600:]
            inconclusive.append(entry)
        hrep.append(entry)

    # ---- MIR symbolic executor results ------------------------------------------------------------------
    for s in e2specs:
        r = e2results.get(s.name) or dict(status='inconclusive', violations=[], known_hits={}, inconclusive=['not run'], stats={}, covers={})
        stt = r.get('stats', {})
        entry = dict(harness=s.name, engine='E2 MIR symbolic executor (mirsym) / z3', role=s.role,
                     functions=r.get('functions_executed') or s.functions, library_models=r.get('models_used', []),
                     bound=s.bound, claim=s.claim, status=r['status'], paths=stt.get('paths'), branch_decisions=stt.get('decisions'),
                     solver_queries=stt.get('solver_checks'), solver_s=round(stt.get('solver_s', 0), 2), wall_s=stt.get('wall_s'),
                     covers=r.get('covers', {}), cover_sat=len(r.get('covers', {})), cover_total=len(r.get('covers', {})))
        crate = s.native[0] if s.native else 'data'
        nname = s.native[1] if s.native else None
        for key, rec in r.get('known_hits', {}).items():
            e2 = dict(entry)
            e2['harness'] = f'{s.name}#{key}'
            if nname:
                replay_and_classify(e2, f'{s.name}.{key}', crate, rec['vals'], [rec['msg']], rec.get('input', ''), [], key, native_name=nname)
                hrep.append(e2)
        if r['status'] == 'pass':
            if not r.get('covers'):
                entry['verdict'] = 'inconclusive: no path reached the property'
                inconclusive.append(entry)
            else:
                entry['verdict'] = 'holds on every feasible path within bound'
                passed.append(entry)
        elif r['status'] == 'fail':
            rec = r['violations'][0]
            entry['failed_checks'] = [v['msg'] + ' on ' + v.get('input', '') for v in r['violations']][:8]
            if nname:
                replay_and_classify(entry, s.name, crate, rec['vals'], [rec['msg']], rec.get('input', ''), [], None, native_name=nname,
                                    hang=bool(r.get('hang')) and rec['msg'].startswith('does not terminate'))
            else:
                entry['verdict'] = 'inconclusive: counterexample without native replay body'
                inconclusive.append(entry)
        else:
            entry['verdict'] = 'inconclusive: ' + '; '.join(r.get('inconclusive', []))[:600]
            inconclusive.append(entry)
        hrep.append(entry)

    wall = time.time() - t0
    seen_known = set()
    for key, what, e in known_hits:
        if key not in seen_known:
            print(f'KNOWN-FINDING: property={pid} {what} [{key}]')
            seen_known.add(key)
    for e in violations:
        print(f"VIOLATION property={pid} replay={e['counterexample']['replay']}")
        core.log(f"  harness={e['harness']} failed={e.get('failed_checks')} input={e['counterexample']['input']} native={e['counterexample']['native']}")
    for e in inconclusive:
        core.log(f"INCONCLUSIVE property={pid} harness={e['harness']}: {e['verdict']}")
    for c, t in compile_errors.items():
        core.log(f'BUILD ERROR in {c}:\n{t}')

    decided = [e for e in hrep if e['status'] in ('pass', 'fail') and not e['verdict'].startswith('inconclusive')]
    nontrivial = [e for e in decided if (e.get('cover_sat') or 0) > 0 or e['status'] == 'fail']
    samples = []
    for e in hrep[:6]:
        samples.append({k: e[k] for k in ('harness', 'engine', 'functions', 'bound', 'claim', 'verdict', 'checks', 'paths', 'solver_s') if k in e})
    for e in violations + [k[2] for k in known_hits]:
        samples.append(dict(harness=e['harness'], counterexample=e['counterexample']))
    ev = dict(
        property_id=pid, tier=tier, seed=seed, level='model_checking',
        coverage=dict(
            evaluations=len(decided),
            distinct_nontrivial=len({e['harness'] for e in nontrivial}),
            rule=('one evaluation = one decision problem settled by a solver: (E1) a Kani proof harness - real functions compiled from '
                  '/repo, symbolic inputs, stated bound - decided by CBMC/cadical with unwinding assertions on, or (E2) the MIR of the '
                  'real functions executed symbolically by mirsym with z3 deciding every branch and the property on every feasible '
                  'path; distinct = distinct harness (function x bound x claim); non-trivial = at least one reachability witness '
                  '(kani::cover / covered outcome class) was satisfied or a counterexample was produced'),
            samples=samples,
            exhaustive=False,
            engine='E1: Kani 0.68.0 / CBMC 6.11.0 / cadical; E2: mirsym (rustc nightly MIR, z3); symbolic = all values of the stated inputs within the stated bound',
            harnesses=hrep,
            queries_discharged=len(decided),
            assertions_checked=sum((e.get('checks') or 0) for e in decided),
            paths_explored=sum((e.get('paths') or 0) for e in decided),
            solver_queries=sum((e.get('solver_queries') or 0) for e in decided),
            solver_seconds=round(sum((e.get('solver_s') or 0) for e in hrep), 2),
            inconclusive=[e['harness'] for e in inconclusive],
            known_findings_reproduced=sorted(seen_known),
            traces_validated_against_impl=e2validation.get('compared', 0),
            e2_translator_validation=e2validation,
            outside_claim=info.get('outside_claim', []),
            partial=bool(args.only),
        ),
        assumptions=info.get('assumptions', []),
        wall_s=round(wall, 1),
        violations=len(violations),
    )
    os.makedirs(os.path.join(core.VERIF, 'evidence'), exist_ok=True)
    if not args.only and core.REPO == '/repo':
        json.dump(ev, open(os.path.join(core.VERIF, 'evidence', f'{pid}.json'), 'w'), indent=1)
    elif not args.only:
        # a run against another checkout (VERIF_REPO: evaluation of a seeded change) never overwrites the evidence of /repo
        os.makedirs(os.path.join(core.VERIF, '.work', 'evidence-other'), exist_ok=True)
        json.dump(ev, open(os.path.join(core.VERIF, '.work', 'evidence-other', f'{tag}.json'), 'w'), indent=1)
    else:
        json.dump(ev, open(os.path.join(work, 'evidence-partial.json'), 'w'), indent=1)
    if not args.keep:
        core.cleanup_workdir(work)
    core.log(f'[{pid}] decided={len(decided)} passed={len(passed)} violations={len(violations)} known={len(seen_known)} '
             f'inconclusive={len(inconclusive)} wall={wall:.0f}s')
    if violations:
        sys.exit(1)
    if inconclusive or compile_errors:
        sys.exit(2)
    sys.exit(0)


if __name__ == '__main__':
    main()
