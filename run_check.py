#!/usr/bin/env python3
"""run_check.py <PROPERTY> --tier quick|thorough

Decides one property of /verif/properties.jsonl by bounded model checking (Kani -> CBMC -> SAT) of the real
functions compiled from /repo's current working tree.  See DESIGN.md.

exit 0  every harness was decided by the solver and held (recorded known findings print KNOWN-FINDING lines)
exit 1  a solver counterexample reproduced natively against the real code: VIOLATION property=<id> replay=<path>
exit 2  inconclusive (timeout / out of memory / tool error / vacuous harness / counterexample that does not reproduce)
"""
import argparse
import importlib
import json
import os
import sys
import threading
import time

sys.path.insert(0, os.path.dirname(os.path.abspath(__file__)))
from vlib import core  # noqa: E402


def replay_only(path):
    """re-run a stored counterexample natively: python3 run_check.py --replay <file>"""
    meta = {}
    for ln in open(path):
        if ln.startswith('# crate='):
            meta['crate'] = ln.split('=', 1)[1].strip()
        if ln.startswith('# property='):
            meta['property'] = ln.split('=', 1)[1].strip()
        if ln.startswith('# tier='):
            meta['tier'] = ln.split('=', 1)[1].strip()
    pid = meta.get('property')
    tier = meta.get('tier', 'quick')
    mod = importlib.import_module('checks.' + pid.lower())
    known = {f['key'] for f in core.load_known_findings() if f.get('status', 'open') == 'open'}
    harnesses, gen_code, info = mod.build(tier, known)
    work = core.prepare_workdir(f'{pid}-replay', gen_code, harnesses)
    ok, detail = core.native_replay(work, meta.get('crate', 'data'), os.path.abspath(path))
    print(('REPRODUCED: ' if ok else 'NOT REPRODUCED: ') + detail)
    core.cleanup_workdir(work)
    return 1 if ok else 0


def main():
    ap = argparse.ArgumentParser()
    ap.add_argument('property', nargs='?')
    ap.add_argument('--tier', default=os.environ.get('VERIF_TIER', 'quick'), choices=['quick', 'thorough'])
    ap.add_argument('--jobs', type=int, default=int(os.environ.get('VERIF_JOBS', '16')))
    ap.add_argument('--only', default=None, help='substring filter on harness names (debugging; evidence is marked partial)')
    ap.add_argument('--keep', action='store_true', help='keep build output in .work')
    ap.add_argument('--replay', default=None)
    ap.add_argument('--tag', default=None)
    args = ap.parse_args()
    if args.replay:
        sys.exit(replay_only(args.replay))
    pid = args.property.upper()
    tier = args.tier
    seed = int(os.environ.get('VERIF_SEED', '0') or 0)
    t0 = time.time()
    mod = importlib.import_module('checks.' + pid.lower())
    findings = core.load_known_findings()
    known = {f['key'] for f in findings if f.get('status', 'open') == 'open' and f['property'] == pid}
    harnesses, gen_code, info = mod.build(tier, known)
    if args.only:
        harnesses = [h for h in harnesses if args.only in h.name]
    tag = args.tag or f'{pid}-{tier}'
    work = core.prepare_workdir(tag, gen_code, harnesses)
    core.log(f'[{pid}] tier={tier} harnesses={len(harnesses)} work={work}')

    by_crate = {}
    for h in harnesses:
        by_crate.setdefault(h.crate, []).append(h)
    results = {}
    raw = {}
    compile_errors = {}

    cbmc_args_of = {}

    def run_group(crate, g, jobs, to, tsuffix, label):
        res, text, wall, cerr = core.run_kani(work, crate, [h.name for h in g], jobs, to, log_name=f'kani-{crate}-{label}',
                                              mem_kb=info.get('mem_kb', 40 * 1024 * 1024),
                                              overall_timeout=info.get('overall_timeout'), tsuffix=tsuffix)
        core.log(f'[{pid}] cargo kani -p {core.CRATES[crate]} ({label}): {len(g)} harnesses, wall {wall:.0f}s')
        if cerr:
            compile_errors[crate] = text[-3000:]
        for h in g:
            results[h.name] = res.get(h.name)

    def run_special(crate, g, tsuffix, jobs):
        # harnesses with per-loop unwind bounds: compile, resolve the loop ids on the goto binaries, then verify;
        # harnesses that resolve to the same CBMC arguments share one invocation
        resolved = core.resolve_unwindsets(work, crate, g, tsuffix=tsuffix)
        by_args = {}
        for h in g:
            labs, why = resolved.get(h.name, (None, 'not resolved'))
            if labs is None:
                results[h.name] = dict(status='error', failed_checks=[], raw='unwindset resolution failed: ' + why)
                continue
            cbmc_args = ('--unwindset', ','.join(labs))
            cbmc_args_of[h.name] = cbmc_args
            h.bound += f'; per-loop bound --unwindset {",".join(labs)}'
            by_args.setdefault(cbmc_args, []).append(h)
        for i, (cbmc_args, hh) in enumerate(by_args.items()):
            to = max(h.timeout for h in hh)
            res, text, wall, cerr = core.run_kani(work, crate, [h.name for h in hh], min(jobs, len(hh)), to, log_name=f'kani-{crate}-special{i}',
                                                  mem_kb=info.get('mem_kb', 40 * 1024 * 1024), tsuffix=tsuffix, cbmc_args=cbmc_args)
            core.log(f'[{pid}] cargo kani -p {core.CRATES[crate]} ({len(hh)} harnesses, {" ".join(cbmc_args)}): wall {wall:.0f}s')
            if cerr:
                compile_errors[crate] = text[-3000:]
            for h in hh:
                results[h.name] = res.get(h.name)

    threads = []
    for crate, hs in by_crate.items():
        plain = [h for h in hs if not h.unwindset]
        special = [h for h in hs if h.unwindset]
        # explicit groups get their own invocation (and target dir) and run concurrently with the rest
        groups = {}
        for h in plain:
            groups.setdefault(h.group, []).append(h)
        ngroups = len(groups) + (1 if special else 0)
        share = max(1, args.jobs // max(1, ngroups * len(by_crate)))
        for grp, g in groups.items():
            to = max(h.timeout for h in g)
            tsuffix = '' if grp is None else f'-{grp}'
            th = threading.Thread(target=run_group, args=(crate, g, min(share, len(g)) if grp is not None else max(share, args.jobs - share * (ngroups - 1) * len(by_crate)), to, tsuffix, grp or 'main'))
            th.start()
            threads.append(th)
        if special:
            th = threading.Thread(target=run_special, args=(crate, special, '-special', max(1, args.jobs // 2)))
            th.start()
            threads.append(th)
    for th in threads:
        th.join()

    violations = []
    known_hits = []
    inconclusive = []
    passed = []
    hrep = []
    replay_dir = os.path.join(core.VERIF, 'replays', pid)
    for h in harnesses:
        r = results.get(h.name) or dict(status='missing', failed_checks=[], raw='')
        entry = dict(harness=h.name, crate=core.CRATES[h.crate], role=h.role, functions=h.functions, bound=h.bound,
                     claim=h.claim, status=r['status'], checks=r.get('checks'), failed=r.get('failed'),
                     cover_sat=r.get('cover_sat'), cover_total=r.get('cover_total'), solver_s=r.get('time'))
        st = r['status']
        if st == 'pass':
            if h.expect_cover and r.get('cover_total') and r.get('cover_sat') != r.get('cover_total'):
                entry['verdict'] = 'inconclusive: vacuity witness unsatisfied (%s of %s covers)' % (r.get('cover_sat'), r.get('cover_total'))
                inconclusive.append(entry)
            else:
                entry['verdict'] = 'holds within bound'
                passed.append(entry)
                if h.role.startswith('known:'):
                    entry['verdict'] = 'holds within bound (recorded finding not observed)'
        elif st == 'fail':
            descs = [d for d, _ in r['failed_checks']]
            entry['failed_checks'] = [f'{d} @ {l}' for d, l in r['failed_checks']][:8]
            if descs and all('unwinding assertion' in d for d in descs):
                entry['verdict'] = 'inconclusive: unwinding bound too small'
                inconclusive.append(entry)
            else:
                vals = core.playback_values(work, h.crate, h.name, h.timeout, cbmc_args=cbmc_args_of.get(h.name, ()))
                if not vals:
                    entry['verdict'] = 'inconclusive: solver reported a failure but no counterexample values could be extracted'
                    inconclusive.append(entry)
                else:
                    buf, others = core.decode_vals(vals)
                    rp = os.path.join(replay_dir, f'{h.name}.replay')
                    comment = (f'property={pid}\ncrate={h.crate}\ntier={tier}\nharness={h.name}\nfailed: ' + '; '.join(descs[:4]) +
                               f'\ninput bytes (1-byte values in order)={buf!r}\nother values={others}')
                    core.write_replay_file(rp, h.name, vals, comment)
                    ok, detail = core.native_replay(work, h.crate, rp, release=False)
                    prof = 'dev'
                    if not ok:
                        ok2, detail2 = core.native_replay(work, h.crate, rp, release=True)
                        if ok2:
                            ok, detail, prof = True, detail2, 'release'
                    entry['counterexample'] = dict(bytes=repr(buf), others=others, replay=rp, native=detail, profile=prof)
                    if ok:
                        key = h.role[6:] if h.role.startswith('known:') else None
                        if key and key in known:
                            what = next(f['what'] for f in findings if f['key'] == key)
                            entry['verdict'] = 'known finding reproduced'
                            known_hits.append((key, what, entry))
                        else:
                            entry['verdict'] = 'VIOLATION (reproduced natively)'
                            violations.append(entry)
                    else:
                        entry['verdict'] = 'inconclusive: counterexample does not reproduce natively (' + detail + ')'
                        inconclusive.append(entry)
        else:
            entry['verdict'] = f'inconclusive: {st}'
            entry['raw_tail'] = (r.get('raw') or '')[-600:]
            inconclusive.append(entry)
        hrep.append(entry)

    wall = time.time() - t0
    for key, what, e in known_hits:
        print(f'KNOWN-FINDING: property={pid} {what} [{key}]')
    for e in violations:
        print(f"VIOLATION property={pid} replay={e['counterexample']['replay']}")
        core.log(f"  harness={e['harness']} failed={e.get('failed_checks')} input={e['counterexample']['bytes']} native={e['counterexample']['native']}")
    for e in inconclusive:
        core.log(f"INCONCLUSIVE property={pid} harness={e['harness']}: {e['verdict']}")
    for c, t in compile_errors.items():
        core.log(f'BUILD ERROR in {c}:\n{t}')

    decided = [e for e in hrep if e['status'] in ('pass', 'fail') and not e['verdict'].startswith('inconclusive')]
    nontrivial = [e for e in decided if (e.get('cover_sat') or 0) > 0 or e['status'] == 'fail']
    samples = []
    for e in hrep[:6]:
        samples.append({k: e[k] for k in ('harness', 'functions', 'bound', 'claim', 'verdict', 'checks', 'solver_s') if k in e})
    for e in violations + [k[2] for k in known_hits]:
        samples.append(dict(harness=e['harness'], counterexample=e['counterexample']))
    ev = dict(
        property_id=pid, tier=tier, seed=seed, level='model_checking',
        coverage=dict(
            evaluations=len(decided),
            distinct_nontrivial=len({e['harness'] for e in nontrivial}),
            rule=('one evaluation = one solver query: a Kani proof harness (real functions compiled from /repo, symbolic inputs, '
                  'stated bound) decided by CBMC/cadical with unwinding assertions on; distinct = distinct harness (function x bound x '
                  'claim); non-trivial = at least one reachability witness (kani::cover) inside the harness was satisfied or a '
                  'counterexample was produced'),
            samples=samples,
            exhaustive=False,
            engine='Kani 0.68.0 / CBMC 6.11.0 / cadical; symbolic = all values of the stated inputs within the stated bound',
            harnesses=hrep,
            queries_discharged=len(decided),
            assertions_checked=sum((e.get('checks') or 0) for e in decided),
            solver_seconds=round(sum((e.get('solver_s') or 0) for e in hrep), 2),
            inconclusive=[e['harness'] for e in inconclusive],
            known_findings_reproduced=[k for k, _, _ in known_hits],
            outside_claim=info.get('outside_claim', []),
            partial=bool(args.only),
        ),
        assumptions=info.get('assumptions', []),
        wall_s=round(wall, 1),
        violations=len(violations),
    )
    os.makedirs(os.path.join(core.VERIF, 'evidence'), exist_ok=True)
    if not args.only:
        json.dump(ev, open(os.path.join(core.VERIF, 'evidence', f'{pid}.json'), 'w'), indent=1)
    else:
        json.dump(ev, open(os.path.join(work, f'evidence-partial.json'), 'w'), indent=1)
    if not args.keep:
        core.cleanup_workdir(work)
    core.log(f'[{pid}] decided={len(decided)} passed={len(passed)} violations={len(violations)} known={len(known_hits)} '
             f'inconclusive={len(inconclusive)} wall={wall:.0f}s')
    if violations:
        sys.exit(1)
    if inconclusive or compile_errors:
        sys.exit(2)
    sys.exit(0)


if __name__ == '__main__':
    main()
