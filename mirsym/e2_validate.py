#!/usr/bin/env python3
"""Translator validation for engine E2: the same concrete inputs through (a) the native build of the real functions
(in-crate test `verif_oracle`) and (b) the MIR executor with its library models; any disagreement means the executor or a model
is wrong -> the E2 verdicts of this run are not trusted (reported as inconclusive).

usage: e2_validate.py gen <cases file> <seed>      write the case list
       e2_validate.py run <mirdir> <cases file> <native results file>     compare; exit 0 = all agree
"""
import json
import os
import random
import sys
sys.path.insert(0, os.path.dirname(os.path.abspath(__file__)))


def hexs(b):
    return b.hex() if b else '-'


SEEDS = [b'', b' ', b'  ', b'\t\n', b'a', b' a ', b'a b', b'&', b'&amp;', b'&lt;', b'&gt;', b'&apos;', b'&quot;', b'&amp', b'&#9;', b'&#32;x',
         b'x&#x9;', b'&#x41;', b'&#65;', b'&#+65;', b'&#x+41;', b'&#;', b'&#x;', b'&#xD800;', b'&#1114112;', b'&#x10FFFF;', b'&#0;', b'&&', b'a&b;',
         b'<>"\'&', b'<', b'>', b'"', b"'", b'&bogus;', b'&#xzz;', b'&#12', b'0', b'00', b'12', b'+5', b'-5', b'18446744073709551615',
         b'18446744073709551616', b'1e5', b'1.5', b'NaN', b'inf', b'-inf', b'.5', b'5.', b'default', b'preserve', b'DEFAULT', b'default ',
         b'\xc3\xa4', b'\xe2\x82\xac', b'\xf0\x9f\x98\x80', b'\xc3', b'\xe2\x82', b'\xf0\x9f', b'\xff', b'a\xffb', b'\xc0\x80', b'\xed\xa0\x80',
         b'\xf4\x90\x80\x80', b'\xe0\x80\x80', b' \xc3\xa4 ', b'&#228;', b'&#x20AC;', b'&#x1F600;', b'abc&#x1F600;def', b'1234', b'12a', b' 12 ']


def gen(path, seed):
    rnd = random.Random(seed)
    inputs = list(SEEDS)
    for x in range(256):
        inputs.append(bytes([x]))
    for x in (9, 10, 11, 12, 13, 32, 0x85, 0xa0):
        inputs += [bytes([x, 0x61]), bytes([0x61, x]), bytes([x, 0x61, x]), b'&#%d;' % x, b'&#x%x;a' % x]
    alphabet = b'&#x;ltgampoqus0129aF+- \t\n\r\x0c\x0b<>"\'\xc3\xa4\xe2\x82\xac\xff'
    for _ in range(150):
        n = rnd.randint(0, 8)
        inputs.append(bytes(rnd.choice(alphabet) for _ in range(n)))
    for _ in range(40):
        n = rnd.randint(0, 5)
        inputs.append(bytes(rnd.randrange(256) for _ in range(n)))
    lines = []
    for b in inputs:
        h = hexs(b)
        lines.append(f'trim {h}')
        lines.append(f'unescape {h} 1')
        lines.append(f'unescape {h} 0')
        lines.append(f'escape {h}')
        for strict in (1, 0):
            lines.append(f'pcd {h} string 0 -1 {strict}')
            lines.append(f'pcd {h} string 1 3 {strict}')
            lines.append(f'pcd {h} pattern 0 3 {strict}')
            lines.append(f'pcd {h} uint 0 -1 {strict}')
            lines.append(f'pcd {h} enum 0 -1 {strict}')
    # library models used only by changed code (Element::set_comment): str::contains(&str) / str::replace(&str, &str)
    for hay in (b'', b'-', b'--', b'---', b'----', b'a--b', b'a-b', b'--a--', b'a---b', b'x--', b'--x', b'ab', b'a-', b'-a-'):
        for pat, to in ((b'--', b'__'), (b'-', b''), (b'a-', b'b'), (b'--', b'-')):
            lines.append(f'strops {hexs(hay)} {hexs(pat)} {hexs(to)}')
    vals = []
    for b in inputs[:60]:
        vals.append(('s', hexs(b)))
    for u in (0, 1, 2, 255, 2**63, 2**64 - 1):
        vals.append(('u', str(u)))
    for f in (0x0, 0x8000000000000000, 0x3ff0000000000000, 0xbff0000000000000, 0x7ff0000000000000, 0xfff0000000000000, 0x0000000000000001, 0x4000000000000000):
        vals.append(('f', '%016x' % f))
    for e in (0, 1, 2, 100, 2809):
        vals.append(('e', str(e)))
    for _ in range(400):
        a = rnd.choice(vals)
        b = rnd.choice(vals)
        lines.append(f'cmp {a[0]} {a[1]} {b[0]} {b[1]}')
    open(path, 'w').write('\n'.join(lines) + '\n')
    return len(lines)


def run(mirdir, cases, native):
    import z3
    from e2lib import (load_program, find_fn, mk_parser, spec_string, spec_pattern, spec_uint, spec_float, spec_enum, Agg, Slice, Str,
                       Ref, Cell, I, F, mk_int, usize, bv, err_parts, Unsupported, Panic)
    from mirexec import Executor, BoundExceeded
    from models import Models, as_bytes_list, is_digit
    import e2defs
    prog = load_program(mirdir)
    ex = Executor(prog, Models(), max_visits=4096, max_steps=2000000)
    e2defs.install_to_str_models(ex.models)
    enum_tab = e2defs.string_table('enumitem.rs')
    lookup = {t: i for i, t in enumerate(enum_tab)}

    def enum_from_bytes(ex_, c, a):
        from models import ok, err
        from mirexec import Opaque
        bs = as_bytes_list(ex_, a[0])
        key = bytes(z3.simplify(x).as_long() for x in bs)
        if key in lookup:
            return ok(I(bv(lookup[key], 16), False, 'u16'))
        return err(Opaque('ParseEnumItemError'))
    ex.models.add(r'^autosar_data_specification::EnumItem::from_bytes$', enum_from_bytes, prefer=True)
    ex.models.rx.insert(0, ex.models.rx.pop())
    f_trim = find_fn(prog, 'trim_byte_string')
    f_unesc = find_fn(prog, '::unescape_string')
    f_ser = find_fn(prog, '::serialize_internal', 'chardata.rs')
    f_pcd = find_fn(prog, '::parse_character_data', 'parser.rs')
    f_cmp = find_fn(prog, '::cmp', 'chardata.rs')

    def conc(bs):
        return bytes(z3.simplify(x).as_long() for x in bs)

    def sl(b, is_str=False):
        return Slice([bv(x, 8) for x in b], 0, len(b), is_str)

    def kind(e):
        line, src = err_parts(e)
        return f'{src.variant}@{line.conc()}'

    def warn(p):
        ws = p.fields[9].items
        return 'W%d' % len(ws) + ''.join(':' + kind(w) for w in ws)

    def cdata(v):
        if v.variant == 'String':
            return 'S:' + hexs(conc(v.fields[0].b))
        if v.variant == 'UnsignedInteger':
            return 'U:%d' % v.fields[0].conc()
        if v.variant == 'Enum':
            return 'E:%d' % v.fields[0].conc()
        if v.variant == 'Float':
            return 'F:?'
        return '?'

    def dummy_validate(ex_, args):
        bs = as_bytes_list(ex_, args[0])
        return len(bs) > 0 and all(0x30 <= z3.simplify(x).as_long() <= 0x39 for x in bs)

    def valid_utf8(b):
        try:
            b.decode('utf-8')
            return True
        except UnicodeDecodeError:
            return False

    def one(f):
        def unhex(h):
            return b'' if h == '-' else bytes.fromhex(h)
        if f[0] == 'trim':
            r = ex.call(f_trim, [sl(unhex(f[1]))])
            return hexs(conc(r.items()))
        if f[0] == 'unescape':
            b = unhex(f[1])
            if not valid_utf8(b):
                return 'skip'
            p = mk_parser(f[2] == '1', usize(7))
            r = ex.call(f_unesc, [Ref(Cell(p)), sl(b, True)])
            if r.variant == 'Ok':
                return f'Ok {hexs(conc(as_bytes_list(ex, r.fields[0])))} {warn(p)}'
            return f'Err {kind(r.fields[0])}'
        if f[0] == 'escape':
            b = unhex(f[1])
            if not valid_utf8(b):
                return 'skip'
            o = Str()
            ex.call(f_ser, [Ref(Cell(Agg('CharacterData', 'String', [Str([bv(x, 8) for x in b])]))), Ref(Cell(o))])
            return hexs(conc(o.b))
        if f[0] == 'pcd':
            b = unhex(f[1])
            ml = int(f[4])
            ml = None if ml < 0 else ml
            k = f[2]
            if k == 'string':
                spec = spec_string(f[3] == '1', ml)
            elif k == 'pattern':
                spec = spec_pattern(dummy_validate, ml)
            elif k == 'uint':
                spec = spec_uint()
            elif k == 'enum':
                spec = spec_enum([(I(bv(lookup[b'default'], 16), False, 'u16'), mk_int(0x3ffff, 'u32')),
                                  (I(bv(lookup[b'preserve'], 16), False, 'u16'), mk_int(0x0ffff, 'u32'))])
            else:
                spec = spec_float()
            p = mk_parser(f[5] == '1', usize(7))
            p.fields[3] = mk_int(0x20000, 'u32')     # Autosar_00050
            r = ex.call(f_pcd, [Ref(Cell(p)), sl(b), Ref(Cell(spec))])
            if r.variant == 'Ok':
                return f'Ok {cdata(r.fields[0])} {warn(p)}'
            return f'Err {kind(r.fields[0])} {warn(p)}'
        if f[0] == 'strops':
            hay, pat, to = unhex(f[1]), unhex(f[2]), unhex(f[3])
            c_ = ex.models.lookup('core::str::<impl str>::contains::<&str>')(ex, 'core::str::<impl str>::contains::<&str>', [sl(hay, True), sl(pat, True)])
            r_ = ex.models.lookup('alloc::str::<impl str>::replace::<&str>')(ex, 'alloc::str::<impl str>::replace::<&str>', [sl(hay, True), sl(pat, True), sl(to, True)])
            c_ = c_ if isinstance(c_, bool) else z3.is_true(z3.simplify(c_))
            return f"{'true' if c_ else 'false'} {hexs(conc(r_.b))}"
        if f[0] == 'cmp':
            def mk(k, v):
                if k == 's':
                    b = unhex(v)
                    if not valid_utf8(b):
                        return None
                    return Agg('CharacterData', 'String', [Str([bv(x, 8) for x in b])])
                if k == 'u':
                    return Agg('CharacterData', 'UnsignedInteger', [mk_int(int(v), 'u64')])
                if k == 'f':
                    return Agg('CharacterData', 'Float', [F(z3.fpBVToFP(bv(int(v, 16), 64), z3.Float64()))])
                return Agg('CharacterData', 'Enum', [I(bv(int(v), 16), False, 'u16')])
            a, b = mk(f[1], f[2]), mk(f[3], f[4])
            if a is None or b is None:
                return 'skip'
            return ex.call(f_cmp, [Ref(Cell(a)), Ref(Cell(b))]).variant
        return 'unknown'

    lines = [ln.split() for ln in open(cases) if ln.strip()]
    nat = [ln.rstrip('\n') for ln in open(native)]
    if len(nat) != len(lines):
        print(json.dumps(dict(ok=False, error=f'native results {len(nat)} lines, cases {len(lines)}')))
        return 1
    bad = []
    n = 0
    skipped = 0
    # concrete execution: every branch condition simplifies to a constant, a single path
    ex.prefix, ex.trace, ex.pc, ex.pending, ex.steps = [], [], [], [], 0
    for f, want in zip(lines, nat):
        ex.steps = 0
        try:
            got = one(f)
        except Panic as p:
            got = 'PANIC ' + p.msg
        except (Unsupported, BoundExceeded) as u:
            got = 'UNSUPPORTED ' + str(u)
        if want == 'skip' or got == 'skip':
            skipped += 1
            continue
        n += 1
        if got.startswith('Ok F:?') and want.startswith('Ok F:'):
            got = want if got.split(' ')[-1] == want.split(' ')[-1] else got
        if got != want:
            bad.append(dict(case=' '.join(f), native=want, mir=got))
    print(json.dumps(dict(ok=not bad, compared=n, skipped=skipped, disagreements=bad[:10], n_disagreements=len(bad),
                          functions=sorted(ex.functions_executed), models=sorted(ex.models_used))))
    return 0 if not bad else 1


def gen_spec(path, seed, entries):
    """cases for validators executed by E2: `re <entry> <hex>`; entries: [[idx, fn], ...]"""
    rnd = random.Random(seed)
    lines = []
    members = [b'ANY', b'1:2:3:4:5:6:7:8', b'ffff:FFFF:0:00:000:0000:a:B', b'1:2:3:4:5:6:7', b'1:2:3:4:5:6:7:8:9', b'12345:2:3:4:5:6:7:8', b':2:3:4:5:6:7:8',
               b'1:2:3:4:5:6:7:', b'g:2:3:4:5:6:7:8', b'ANY ', b'any', b'', b':', b'::::::::', b':::::::', b'/a/b', b'a/b_1/C', b'/', b'a//b', b'/a/', b'1a/b', b'a' * 128, b'a' * 129, b'/' + b'a' * 128 + b'/b', b'ab:cd:ef:01:23:45', b'ab:cd:ef:01:23:4', b'abc:d:ef:01:23:45']
    alphabet = b'0123456789abcdefABCDEFg:ANY/_ \xff'
    for idx, fn in entries:
        ins = list(members)
        for _ in range(300):
            n = rnd.randint(0, 20)
            ins.append(bytes(rnd.choice(alphabet) for _ in range(n)))
        for m in members:
            for _ in range(10):
                if m:
                    k = rnd.randrange(len(m))
                    ins.append(m[:k] + bytes([rnd.choice(alphabet)]) + m[k + 1:])
        for b in ins:
            lines.append(f're {idx} {hexs(b)}')
    open(path, 'w').write('\n'.join(lines) + '\n')
    return len(lines)


def run_spec(mirdir, cases, native, entries):
    import z3
    from e2lib import load_program, Slice, bv, Unsupported, Panic
    from mirexec import Executor, BoundExceeded
    from models import Models
    prog = load_program(mirdir)
    ex = Executor(prog, Models(), max_visits=4096, max_steps=2000000)
    fn_of = {str(i): 'regex::' + f for i, f in entries}
    lines = [ln.split() for ln in open(cases) if ln.strip()]
    nat = [ln.strip() for ln in open(native)]
    if len(nat) != len(lines):
        print(json.dumps(dict(ok=False, error=f'native results {len(nat)} lines, cases {len(lines)}')))
        return 1
    bad = []
    ex.prefix, ex.trace, ex.pc, ex.pending, ex.steps = [], [], [], [], 0
    for f, want in zip(lines, nat):
        ex.steps = 0
        b = b'' if f[2] == '-' else bytes.fromhex(f[2])
        try:
            r = ex.call(fn_of[f[1]], [Slice([bv(x, 8) for x in b], 0, len(b), False)])
            if not isinstance(r, bool):
                r = z3.is_true(z3.simplify(r))
            got = '1' if r else '0'
        except Panic as p:
            got = 'PANIC ' + p.msg
        except (Unsupported, BoundExceeded) as u:
            got = 'UNSUPPORTED ' + str(u)
        if got != want:
            bad.append(dict(case=' '.join(f), native=want, mir=got))
    print(json.dumps(dict(ok=not bad, compared=len(lines), disagreements=bad[:10], n_disagreements=len(bad),
                          functions=sorted(ex.functions_executed), models=sorted(ex.models_used))))
    return 0 if not bad else 1


def gen_names(path, seed):
    """cases for the name lookups executed by E2: `name <table> <hex>`: every 7th item text, one-edit neighbours, random texts"""
    import e2defs
    rnd = random.Random(seed)
    lines = []
    for t, key in enumerate(('attr', 'enum', 'elem')):
        tab = e2defs.string_table(e2defs.TABLES[key][0])
        picks = [tab[i] for i in range(0, len(tab), max(1, len(tab) // 60))]
        ins = list(picks) + [b'', b'a', b'A', b'xmlns', b'DEST', b'dest']
        for m in picks[:40]:
            k = rnd.randrange(len(m))
            ins += [m[:k] + m[k + 1:], m + b'X', m.lower(), m[:k] + bytes([m[k] ^ 0x20]) + m[k + 1:]]
        for _ in range(40):
            ins.append(bytes(rnd.choice(b'ABCDEFGHIJKLMNOPQRSTUVWXYZ-abc019') for _ in range(rnd.randint(1, 12))))
        for b in ins:
            lines.append(f'name {t} {hexs(b)}')
    open(path, 'w').write('\n'.join(lines) + '\n')
    return len(lines)


def run_names(mirdir, cases, native):
    import z3
    import e2defs
    from e2lib import load_program, Slice, bv, Unsupported, Panic
    from mirexec import Executor, BoundExceeded
    from models import Models
    prog = load_program(mirdir)
    ex = Executor(prog, Models(), max_visits=4096, max_steps=2000000)
    e2defs.install_spec_consts(ex)
    fns = {}
    for t, key in enumerate(('attr', 'enum', 'elem')):
        fname = e2defs.TABLES[key][0]
        fns[str(t)] = [x for x in prog.raw if x.endswith('::from_bytes') and fname in x][0]
    lines = [ln.split() for ln in open(cases) if ln.strip()]
    nat = [ln.strip() for ln in open(native)]
    if len(nat) != len(lines):
        print(json.dumps(dict(ok=False, error=f'native results {len(nat)} lines, cases {len(lines)}')))
        return 1
    bad = []
    ex.prefix, ex.trace, ex.pc, ex.pending, ex.steps = [], [], [], [], 0
    for f, want in zip(lines, nat):
        ex.steps = 0
        b = b'' if f[2] == '-' else bytes.fromhex(f[2])
        try:
            r = ex.call(fns[f[1]], [Slice([bv(x, 8) for x in b], 0, len(b), False)])
            got = f'Ok {r.fields[0].conc()}' if r.variant == 'Ok' else 'Err'
        except Panic as p:
            got = 'PANIC ' + p.msg
        except (Unsupported, BoundExceeded) as u:
            got = 'UNSUPPORTED ' + str(u)
        if got != want:
            bad.append(dict(case=' '.join(f), native=want, mir=got))
    print(json.dumps(dict(ok=not bad, compared=len(lines), disagreements=bad[:10], n_disagreements=len(bad),
                          functions=sorted(ex.functions_executed), models=sorted(ex.models_used))))
    return 0 if not bad else 1


if __name__ == '__main__':
    if sys.argv[1] == 'gennames':
        print(gen_names(sys.argv[2], int(sys.argv[3])))
    elif sys.argv[1] == 'runnames':
        sys.exit(run_names(sys.argv[2], sys.argv[3], sys.argv[4]))
    elif sys.argv[1] == 'genspec':
        print(gen_spec(sys.argv[2], int(sys.argv[3]), json.loads(sys.argv[4])))
    elif sys.argv[1] == 'runspec':
        sys.exit(run_spec(sys.argv[2], sys.argv[3], sys.argv[4], json.loads(sys.argv[5])))
    elif sys.argv[1] == 'gen':
        print(gen(sys.argv[2], int(sys.argv[3])))
    else:
        sys.exit(run(sys.argv[2], sys.argv[3], sys.argv[4]))
