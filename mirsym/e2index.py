"""E2 harness for the path index and the reference bookkeeping (C04 / C05 / C06, one step): the real ElementRaw::set_item_name with
AutosarModel::get_element_by_path / fix_identifiables and the reference rewrite loop run from their MIR on a small model whose
names and reference texts are symbolic.  IndexMap / HashMap are association lists with symbolic keys (a map is a map: lookups
fork on key equality); Arc / Weak / RwLock are single-threaded stand-ins."""
import re
import z3
from e2lib import *
from e2defs import register, REG, zand, znot, zb, mk_element, cdata_string, string_table, name_index, ident_validator, install_to_str_models
from mirexec import Iter, str_slice

T_ROOT, T_PKGS, T_PKG, T_SN, T_REFS, T_REF = 1, 2, 3, 4, 5, 6


class MapV:
    """association list with symbolic byte-string keys, insertion order (IndexMap / HashMap stand-in)"""

    def __init__(self, entries=None):
        self.entries = list(entries or [])      # [(key: list of z3 bytes, value)]

    def find(self, ex, key):
        for i, (k, _v) in enumerate(self.entries):
            if len(k) == len(key) and ex.decide(bytes_eq(k, key)):
                return i
        return None


def kbytes(ex, v):
    return list(as_bytes_list(ex, v))


def install_map_models(M):
    def mref(ex, a):
        v = a
        while isinstance(v, (Ref, ElemRef)):
            v = ex.deref(v)
        if not isinstance(v, MapV):
            raise Unsupported(f'map operation on {v!r}')
        return v

    def m_get(ex, c, a):
        m = mref(ex, a[0])
        i = m.find(ex, kbytes(ex, a[1]))
        if i is None:
            return NONE()
        holder = Agg('tuple', None, [m.entries[i][1]])
        m.entries[i] = (m.entries[i][0], holder.fields[0])
        return some(Ref(Cell(holder), [('f', 0)]))

    def m_get_mut(ex, c, a):
        m = mref(ex, a[0])
        i = m.find(ex, kbytes(ex, a[1]))
        if i is None:
            return NONE()
        # values that are mutated through get_mut are VecV objects: hand out a reference to the object itself
        return some(Ref(Cell(m.entries[i][1])))

    def m_remove(ex, c, a):
        m = mref(ex, a[0])
        i = m.find(ex, kbytes(ex, a[1]))
        if i is None:
            return NONE()
        _k, v = m.entries.pop(i)
        return some(v)

    def m_insert(ex, c, a):
        m = mref(ex, a[0])
        key = kbytes(ex, a[1])
        i = m.find(ex, key)
        if i is not None:
            old = m.entries[i][1]
            m.entries[i] = (m.entries[i][0], a[2])
            return some(old)
        m.entries.append((key, a[2]))
        return NONE()

    def m_keys(ex, c, a):
        m = mref(ex, a[0])
        items = [Str(list(k)) for k, _ in m.entries]
        return Iter('keys', Slice(items, 0, len(items), False), 0)

    def m_collect(ex, c, a):
        it = a[0]
        out = [Str(list(x.b)) for x in it.slice.buf[it.slice.off + it.pos: it.slice.off + it.slice.len]]
        return VecV(out)
    def m_contains_key(ex, c, a):
        return mref(ex, a[0]).find(ex, kbytes(ex, a[1])) is not None

    def m_retain(ex, c, a):
        m = mref(ex, a[0])
        kept = []
        for k, v in list(m.entries):
            holder = Cell(v)
            if ex.decide(ex.call_closure(a[1], [Ref(Cell(Str(list(k)))), Ref(holder)])):
                kept.append((k, holder.v))
        m.entries[:] = kept
        return UNIT
    MAPS = r'(indexmap::IndexMap|std::collections::HashMap|HashMap|IndexMap)::<std::string::String, .*>'
    for pat, fn in [
        (r'^' + MAPS + r'::get::<', m_get),
        (r'^' + MAPS + r'::get_mut::<', m_get_mut),
        (r'^' + MAPS + r'::(swap_remove|shift_remove|remove)::<', m_remove),
        (r'^' + MAPS + r'::insert$', m_insert),
        (r'^' + MAPS + r'::contains_key::<', m_contains_key),
        (r'^' + MAPS + r'::retain::<', m_retain),
        (r'^' + MAPS + r'::keys$', m_keys),
        (r'^<(indexmap::map::|std::collections::hash_map::)?Keys<\'_, std::string::String, .*> as Iterator>::cloned::<', lambda ex, c, a: a[0]),
        (r'^<(std::iter::)?Cloned<.*Keys<\'_, std::string::String, .*>> as Iterator>::collect::<Vec<std::string::String>>$', m_collect),
    ]:
        M.add(pat, fn, prefer=True)
        M.rx.insert(0, M.rx.pop())


def install_format_models(M):
    """format!(..) of &str / String arguments with the default placeholder: rustc's template byte string is interpreted
    (0x00 end, 0x01..0x7f a literal of that many bytes, 0xc0 the next argument with default options)"""
    def new_display(ex, c, a):
        return Agg('FmtArgument', None, [a[0]])

    def args_new(ex, c, a):
        return Agg('FmtArguments', None, [a[0], a[1]])

    def fmt(ex, c, a):
        tmpl = a[0].fields[0]
        while isinstance(tmpl, (Ref, ElemRef)):
            tmpl = ex.deref(tmpl)
        tb = [ex.concretize(x) if isinstance(x, I) else z3.simplify(x).as_long() for x in (tmpl.fields if isinstance(tmpl, Agg) else tmpl.items())]
        args = a[0].fields[1]
        while isinstance(args, (Ref, ElemRef)):
            args = ex.deref(args)
        argv = list(args.fields)
        out = []
        i = 0
        nxt = 0
        while True:
            b = tb[i]
            i += 1
            if b == 0:
                break
            if b < 0x80:
                out.extend(bv(x, 8) for x in tb[i:i + b])
                i += b
            elif b == 0xc0:
                v = argv[nxt].fields[0]
                nxt += 1
                while isinstance(v, (Ref, ElemRef)):
                    v = ex.deref(v)
                out.extend(as_bytes_list(ex, v))
            else:
                raise Unsupported(f'format template byte {b:#x}')
        return Str(out)
    for pat, fn in [
        (r'^core::fmt::rt::Argument::<\'_>::new_display::<(&str|std::string::String|&std::string::String)>$', new_display),
        (r'^std::fmt::Arguments::<\'_>::new::<\d+, \d+>$', args_new),
        (r'^(alloc::fmt::|std::fmt::)?format$', fmt),
    ]:
        M.add(pat, fn, prefer=True)
        M.rx.insert(0, M.rx.pop())


@register
class RenameStep(E2Harness):
    """model: AUTOSAR > AR-PACKAGES > [P1 (name n1) > AR-PACKAGES > Q (name q), P2 (name n2) > two reference elements].
    One call: P1.set_item_name(m)."""
    l1 = 1           # length of n1
    lm = 1           # length of the new name
    aspect = 'c04'   # which property's assertions are active: c04 path index | c05 referrer lists | c06 references follow
    native = ('data', 'n_rename_step')
    max_visits = 512
    max_steps = 400000

    def ident(self, ex, name, n):
        from models import is_alpha, is_digit
        bs = [z3.BitVec(f'{name}{i}', 8) for i in range(n)]
        ex.assume(is_alpha(bs[0]))
        for b in bs[1:]:
            ex.assume(z3.Or(is_alpha(b), is_digit(b), b == 0x5f))
        return bs

    def install(self, ex):
        M = ex.models
        install_to_str_models(M)
        install_map_models(M)
        install_format_models(M)
        tab = string_table('elementname.rs')
        self.N = {k: name_index('elementname.rs', v) for k, v in dict(root=b'AUTOSAR', pkgs=b'AR-PACKAGES', pkg=b'AR-PACKAGE', sn=b'SHORT-NAME', refs=b'REFERENCE-BASES', ref=b'PACKAGE-REF').items()}
        sn_spec = Ref(Cell(spec_pattern(ident_validator, 128)))
        ref_spec = Ref(Cell(spec_string(False, None)))

        def tid(ex_, a):
            t = ex_.deref(a) if isinstance(a, (Ref, ElemRef)) else a
            return t.fields[1].conc()
        adds = [
            (r'^autosar_data_specification::ElementName::to_str$', lambda ex_, c, a: str_slice(tab[(ex_.deref(a[0]) if isinstance(a[0], (Ref, ElemRef)) else a[0]).conc()])),
            (r'^autosar_data_specification::ElementType::is_named$', lambda ex_, c, a: tid(ex_, a[0]) == T_PKG),
            (r'^autosar_data_specification::ElementType::is_ref$', lambda ex_, c, a: tid(ex_, a[0]) == T_REF),
            (r'^autosar_data_specification::ElementType::content_mode$', lambda ex_, c, a: Agg('ContentMode', 'Characters' if tid(ex_, a[0]) in (T_SN, T_REF) else 'Sequence', [])),
            (r'^autosar_data_specification::ElementType::chardata_spec$', lambda ex_, c, a: some(sn_spec) if tid(ex_, a[0]) == T_SN else (some(ref_spec) if tid(ex_, a[0]) == T_REF else NONE())),
            (r'^std::sync::Arc::<.*>::downgrade$', lambda ex_, c, a: Agg('Weak', None, [ex_.deref(a[0]).fields[0]])),
            (r'^std::sync::Weak::<.*>::upgrade$', lambda ex_, c, a: some(Agg('Arc', None, [ex_.deref(a[0]).fields[0]]))),
            (r'^std::option::Option::<std::sync::Arc<.*>>::map::<\w+, fn\(', lambda ex_, c, a: a[0] if a[0].variant != 'Some' else some(Agg(re.search(r'::map::<(\w+), fn', c).group(1), None, [a[0].fields[0]]))),
        ]
        # the generic wrapper set_character_data::<String> is `self.set_character_data_internal(value.into(), version)`: the conversion
        # String -> CharacterData::String is done here, the non-generic part runs from its MIR
        f_int = find_fn(ex.prog, '::set_character_data_internal', 'elementraw.rs')
        adds.append((r'^elementraw::<impl ElementRaw>::set_character_data::<std::string::String>$',
                     lambda ex_, c, a: ex_.call(f_int, [a[0], Agg('CharacterData', 'String', [a[1]]), a[2]])))
        for v_, t_ in (('ShortName', b'SHORT-NAME'),):
            M.consts[f'autosar_data_specification::ElementName::{v_}'] = mk_int(name_index('elementname.rs', t_), 'u16')
            M.consts[f'ElementName::{v_}'] = mk_int(name_index('elementname.rs', t_), 'u16')
        for pat, fn in adds:
            M.add(pat, fn, prefer=True)
            M.rx.insert(0, M.rx.pop())

    # ---- model construction ----------------------------------------------------------------------------
    def elem(self, name, typ, content):
        return mk_element(self.N[name], typ, content)

    def raw(self, e):
        return e.fields[0].fields[0].cell.v.fields[0]

    def weak(self, e):
        return Agg('WeakElement', None, [Agg('Weak', None, [e.fields[0].fields[0]])])

    def set_parent(self, child, parent):
        self.raw(child).fields[0] = Agg('ElementOrModel', 'Element', [self.weak(parent)])

    def named(self, typ_name, typ, name_bytes, extra):
        sn = self.elem('sn', T_SN, [Agg('ElementContent', 'CharacterData', [cdata_string(list(name_bytes))])])
        e = self.elem(typ_name, typ, [Agg('ElementContent', 'Element', [sn])] + [Agg('ElementContent', 'Element', [x]) for x in extra])
        self.set_parent(sn, e)
        for x in extra:
            self.set_parent(x, e)
        return e

    def run(self, ex):
        self.install(ex)
        l1 = self.l1
        self.n1 = self.ident(ex, 'n1_', l1)
        self.n2 = self.ident(ex, 'n2_', l1 + 1)
        self.q = self.ident(ex, 'q_', 1)
        self.q2 = self.ident(ex, 'q2_', 1)
        ex.assume(znot(bytes_eq(self.q, self.q2)))
        self.m = self.ident(ex, 'm_', self.lm)
        ex.assume(znot(bytes_eq(self.m, self.n1)) if self.lm == l1 else True)
        slash = bv(0x2f, 8)
        # reference texts: arbitrary strings of the lengths of "/n1" and "/n1/q" (they may or may not designate P1 / Q)
        self.ra = [slash] + [z3.BitVec(f'ra_{i}', 8) for i in range(l1)]
        self.rb = [slash] + [z3.BitVec(f'rb_{i}', 8) for i in range(l1 + 2)]
        self.rc = [slash] + [z3.BitVec(f'rc_{i}', 8) for i in range(self.lm)]      # a third reference of the length of the FUTURE path
        self.rd = [slash] + [z3.BitVec(f'rd_{i}', 8) for i in range(l1 + 1)]       # a fourth one: one character longer than /n1 (the length of /n2)
        # valid reference texts (what set_character_data accepts for a reference): segments [A-Za-z][A-Za-z0-9_]*, separated by /
        from models import is_alpha, is_digit
        for txt in (self.ra, self.rb, self.rc, self.rd):
            for i in range(1, len(txt)):
                ch = txt[i]
                ex.assume(z3.Or(is_alpha(ch), is_digit(ch), ch == 0x5f, ch == 0x2f))
                ex.assume(z3.Implies(txt[i - 1] == 0x2f, is_alpha(ch)))
            ex.assume(txt[-1] != 0x2f)
        q = self.named('pkg', T_PKG, self.q, [])
        q2 = self.named('pkg', T_PKG, self.q2, [])
        pk2 = self.elem('pkgs', T_PKGS, [Agg('ElementContent', 'Element', [q]), Agg('ElementContent', 'Element', [q2])])
        self.set_parent(q, pk2)
        self.set_parent(q2, pk2)
        p1 = self.named('pkg', T_PKG, self.n1, [pk2])
        r_a = self.elem('ref', T_REF, [Agg('ElementContent', 'CharacterData', [cdata_string(list(self.ra))])])
        r_b = self.elem('ref', T_REF, [Agg('ElementContent', 'CharacterData', [cdata_string(list(self.rb))])])
        r_c = self.elem('ref', T_REF, [Agg('ElementContent', 'CharacterData', [cdata_string(list(self.rc))])])
        r_d = self.elem('ref', T_REF, [Agg('ElementContent', 'CharacterData', [cdata_string(list(self.rd))])])
        refs = self.elem('refs', T_REFS, [Agg('ElementContent', 'Element', [x]) for x in (r_a, r_b, r_c, r_d)])
        for x in (r_a, r_b, r_c, r_d):
            self.set_parent(x, refs)
        p2 = self.named('pkg', T_PKG, self.n2, [refs])
        pkgs = self.elem('pkgs', T_PKGS, [Agg('ElementContent', 'Element', [p1]), Agg('ElementContent', 'Element', [p2])])
        self.set_parent(p1, pkgs)
        self.set_parent(p2, pkgs)
        root = self.elem('root', T_ROOT, [Agg('ElementContent', 'Element', [pkgs])])
        self.set_parent(pkgs, root)
        path1 = [slash] + self.n1
        pathq = path1 + [slash] + self.q
        pathq2 = path1 + [slash] + self.q2
        path2 = [slash] + self.n2
        self.idents = MapV([(path1, self.weak(p1)), (pathq, self.weak(q)), (pathq2, self.weak(q2)), (path2, self.weak(p2))])
        # consistent referrer lists: references with equal texts share one entry
        entries = []
        for txt, el in ((self.ra, r_a), (self.rb, r_b), (self.rc, r_c), (self.rd, r_d)):
            for k_, v_ in entries:
                if len(k_) == len(txt) and ex.decide(bytes_eq(k_, txt)):
                    v_.items.append(self.weak(el))
                    break
            else:
                entries.append((list(txt), VecV([self.weak(el)])))
        self.origins = MapV(entries)
        self.n_keys0 = len(self.origins.entries)
        model_raw = Agg('AutosarModelRaw', None, [root, VecV(), self.idents, self.origins])
        model = Agg('AutosarModel', None, [Agg('Arc', None, [Ref(Cell(Agg('RwLock', None, [model_raw])))])])
        self.raw(root).fields[0] = Agg('ElementOrModel', 'Model', [Opaque('WeakAutosarModel')])
        self.p1, self.p2, self.qe, self.q2e, self.r_a, self.r_b, self.r_c, self.r_d, self.pkgs, self.refs_e = p1, p2, q, q2, r_a, r_b, r_c, r_d, pkgs, refs
        self.all_refs = [(r_a, self.ra), (r_b, self.rb), (r_c, self.rc), (r_d, self.rd)]
        if getattr(self, '_build_only', False):
            f_rm = find_fn(ex.prog, '::remove_sub_element', 'elementraw.rs')
            if self.which == 'ref':
                return ex.call(f_rm, [Ref(Cell(self.raw(refs))), r_a, Ref(Cell(model))])
            victim = p1 if self.which == 'p1' else p2
            return ex.call(f_rm, [Ref(Cell(self.raw(pkgs))), victim, Ref(Cell(model))])
        f_set = find_fn(ex.prog, '::set_item_name', 'elementraw.rs')
        r = ex.call(f_set, [Ref(Cell(self.raw(p1))), Slice(list(self.m), 0, len(self.m), True), Ref(Cell(model)), mk_int(0x1000, 'u32')])
        return r

    # ---- property -----------------------------------------------------------------------------------------
    def text_of(self, e):
        return list(self.raw(e).fields[3].items[0].fields[0].fields[0].b)

    def name_of(self, e):
        sn = self.raw(e).fields[3].items[0].fields[0]
        return list(self.raw(sn).fields[3].items[0].fields[0].fields[0].b)

    def same_elem(self, weak, e):
        w = weak
        return w.fields[0].fields[0].cell is e.fields[0].fields[0].cell

    def prop(self, out, ex):
        if out[0] == 'panic':
            self.cover('panic')
            self.require(ex, False, 'rename panicked: ' + out[1])
            return
        r = out[1]
        slash = bv(0x2f, 8)
        old1 = [slash] + self.n1
        dup = bytes_eq(self.m, self.n2) if len(self.m) == len(self.n2) else False
        A = self.aspect
        if r.variant == 'Err':
            self.cover('rejected')
            if A == 'c04':
                self.require(ex, dup, 'a rename to a free name is rejected')
                self.require(ex, bytes_eq(self.name_of(self.p1), self.n1), 'a rejected rename changed the name')
                self.require(ex, len(self.idents.entries) == 4, 'a rejected rename changed the path index')
            if A == 'c06':
                self.require(ex, zand(*[bytes_eq(self.text_of(e_), t_) for e_, t_ in self.all_refs]), 'a rejected rename changed a reference')
            if A == 'c05':
                self.require(ex, len(self.origins.entries) == self.n_keys0, 'a rejected rename changed the referrer lists')
            return
        self.cover('renamed')
        new1 = [slash] + self.m
        if A == 'c04':
            self.require(ex, znot(dup), 'a rename to the name of a sibling is accepted: two elements with one path')
            self.require(ex, bytes_eq(self.name_of(self.p1), self.m), 'the element does not carry the new name')
            # C04: the index holds exactly the three identifiable elements under their current paths
            want = [(new1, self.p1), (new1 + [slash] + self.q, self.qe), (new1 + [slash] + self.q2, self.q2e), ([slash] + self.n2, self.p2)]
            self.require(ex, len(self.idents.entries) == 4, 'the path index has lost or gained entries')
            for path, e in want:
                hits = [(k, v) for k, v in self.idents.entries if len(k) == len(path)]
                cond = z3.Or(*[z3.And(bytes_eq(k, path), z3.BoolVal(self.same_elem(v, e))) for k, v in hits]) if hits else False
                self.require(ex, cond, 'an identifiable element is not found under its current path')
            return
        if A == 'c05':
            for ref_e, _t0 in self.all_refs:
                t = self.text_of(ref_e)
                hits = [(k, v) for k, v in self.origins.entries if len(k) == len(t)]
                cond = z3.Or(*[z3.And(bytes_eq(k, t), z3.BoolVal(sum(1 for w in v.items if self.same_elem(w, ref_e)) == 1)) for k, v in hits]) if hits else False
                self.require(ex, cond, 'a reference is not listed (exactly once) under its current text in the referrer lists', known_key=self.known_class(ex))
            total = sum(len(v.items) for _k, v in self.origins.entries)
            self.require(ex, total == 4, 'the referrer lists have lost or gained entries', known_key=self.known_class(ex))
            return
        # C06: references that designated P1 or an identifiable element below it follow; references that have nothing to do with
        # P1 keep their text; a DANGLING reference below the old path (no such element) may do either - the property does not say
        for ref_e, old in self.all_refs:
            new = self.text_of(ref_e)
            below = bytes_eq(old[:len(old1)], old1) if len(old) >= len(old1) else False
            if len(old) > len(old1):
                below = zand(below, old[len(old1)] == slash)
            exists = False
            if len(old) == len(old1):
                exists = below
            elif len(old) == len(old1) + 2:
                exists = zand(below, z3.Or(bytes_eq(old[len(old1) + 1:], self.q), bytes_eq(old[len(old1) + 1:], self.q2)))
            exp_follow = new1 + old[len(old1):]
            follow_ok = bytes_eq(new, exp_follow) if len(new) == len(exp_follow) else False
            keep_ok = bytes_eq(new, old) if len(new) == len(old) else False
            self.require(ex, z3.If(zb(exists), zb(follow_ok), z3.If(zb(below), z3.Or(zb(follow_ok), zb(keep_ok)), zb(keep_ok))),
                         'a reference to the renamed element (or to an element below it) was not rewritten, or an unrelated reference was changed')

    def known_class(self, ex):
        return None

    def replay_vals(self, m):
        out = []
        for bs in (self.n1, self.n2, self.q, self.m, self.ra, self.rb, self.rc, self.rd, self.q2):
            out += [[len(bs)]] + [[x] for x in model_bytes(m, bs)]
        out.append([{'c04': 4, 'c05': 5, 'c06': 6, 'c03': 3}[self.aspect]])
        out.append([{'p1': 0, 'p2': 1, 'ref': 2}[getattr(self, 'which', 'p1')]])
        return out

    def describe(self, m):
        f = lambda bs: bytes(model_bytes(m, bs)).decode('latin1')
        return f"P1={f(self.n1)!r} Q={f(self.q)!r} P2={f(self.n2)!r} new name={f(self.m)!r} Q2={f(self.q2)!r} references={f(self.ra)!r}, {f(self.rb)!r}, {f(self.rc)!r}, {f(self.rd)!r}"


@register
class RemoveStep(RenameStep):
    """same model; one call: AR-PACKAGES.remove_sub_element(P1 | P2)"""
    which = 'p1'
    native = ('data', 'n_remove_step')

    def run(self, ex):
        # build the model exactly as RenameStep does, but call remove_sub_element instead of set_item_name
        self._build_only = True
        return RenameStep.run(self, ex)

    def prop(self, out, ex):
        if out[0] == 'panic':
            self.cover('panic')
            self.require(ex, False, 'remove panicked: ' + out[1])
            return
        r = out[1]
        self.cover('removed' if r.variant == 'Ok' else 'rejected')
        self.require(ex, r.variant == 'Ok', 'removing a package from AR-PACKAGES is rejected')
        if r.variant != 'Ok':
            return
        slash = bv(0x2f, 8)
        path1 = [slash] + self.n1
        all_ids = [(path1, self.p1), (path1 + [slash] + self.q, self.qe), (path1 + [slash] + self.q2, self.q2e), ([slash] + self.n2, self.p2)]
        if self.which == 'p1':
            gone, parent, kept, kept_refs = self.p1, self.pkgs, all_ids[3:], list(self.all_refs)
        elif self.which == 'p2':
            gone, parent, kept, kept_refs = self.p2, self.pkgs, all_ids[:3], []
        else:
            gone, parent, kept, kept_refs = self.r_a, self.refs_e, all_ids, self.all_refs[1:]
        if self.aspect == 'c04':
            # the removed element is unlinked: not listed by its former parent, no parent, no content
            listed = [it.fields[0] for it in self.raw(parent).fields[3].items]
            n_before = 2 if self.which in ('p1', 'p2') else 4
            self.require(ex, not any(x.fields[0].fields[0].cell is gone.fields[0].fields[0].cell for x in listed) and len(listed) == n_before - 1, 'the removed element is still listed by its parent (or a sibling was removed)')
            self.require(ex, self.raw(gone).fields[0].variant == 'None' and len(self.raw(gone).fields[3].items) == 0, 'the removed element keeps a parent or content')
            # C04: exactly the identifiable elements that are still part of the model are in the index
            self.require(ex, len(self.idents.entries) == len(kept), 'the path index keeps entries of removed elements or lost entries of other elements')
            for path, e in kept:
                hits = [(k, v) for k, v in self.idents.entries if len(k) == len(path)]
                cond = z3.Or(*[z3.And(bytes_eq(k, path), z3.BoolVal(self.same_elem(v, e))) for k, v in hits]) if hits else False
                self.require(ex, cond, 'an identifiable element that is still part of the model is not found under its path')
            return
        # C05: the referrer lists hold exactly the references that are still part of the model, each once under its text
        total = sum(len(v.items) for _k, v in self.origins.entries)
        self.require(ex, total == len(kept_refs), 'the referrer lists keep references that were removed, or lost references that are still part of the model')
        for ref_e, t in kept_refs:
            hits = [(k, v) for k, v in self.origins.entries if len(k) == len(t)]
            cond = z3.Or(*[z3.And(bytes_eq(k, t), z3.BoolVal(sum(1 for w in v.items if self.same_elem(w, ref_e)) == 1)) for k, v in hits]) if hits else False
            self.require(ex, cond, 'a reference that is still part of the model is not listed (exactly once) under its text')
