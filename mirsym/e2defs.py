"""E2 harness definitions (engine: MIR symbolic executor). Each class = one decision problem over the real MIR of /repo."""
import z3
from e2lib import *
from models import is_ws, lex_lt

REG = {}


def register(cls):
    REG[cls.__name__] = cls
    return cls


def cdata_str_bytes(v):
    if isinstance(v, Agg) and v.ty == 'CharacterData' and v.variant == 'String':
        return list(v.fields[0].b)
    raise Unsupported(f'not a CharacterData::String: {v!r}')


class ParserHarness(E2Harness):
    """common: symbolic ASCII/any input of concrete length n, symbolic line L in a document of T lines"""
    n = 4
    ascii_only = True
    strict = True
    exclude = ()          # byte values that cannot occur in this kind of input (e.g. '<' inside character data)
    part = None           # (i, k): only inputs whose first byte is congruent i mod k (work split over processes)

    def inputs(self, ex):
        self.bs = sym_bytes('b', self.n)
        if self.part is not None:
            i, k = self.part
            if self.n == 0:
                if i != 0:
                    raise Infeasible()
            else:
                ex.assume(z3.URem(self.bs[0], k) == i)
        if self.ascii_only:
            for b in self.bs:
                ex.assume(z3.ULT(b, 0x80))
        for x in self.exclude:
            for b in self.bs:
                ex.assume(b != x)
        self.line = z3.BitVec('line', 64)
        self.total = z3.BitVec('total', 64)
        ex.assume(z3.And(z3.UGE(self.line, 1), z3.ULE(self.line, self.total)))
        return Slice(self.bs, 0, self.n, False)

    def parser(self, strict=None):
        return mk_parser(self.strict if strict is None else strict, I(self.line, False, 'usize'))

    def describe(self, m):
        b = bytes(model_bytes(m, self.bs))
        return repr(b)

    def line_ok(self, line_i):
        return z3.And(z3.UGE(line_i.e, 1), z3.ULE(line_i.e, self.total))


# =====================================================================================================
# C01 / K1: text values survive load -> serialize -> load, and the second serialization is byte-identical
# =====================================================================================================
@register
class C01RoundTrip(ParserHarness):
    preserve = False
    native = ('data', 'n_c01_text_roundtrip')

    def setup_names(self, prog):
        self.f_parse = find_fn(prog, '::parse_character_data', 'parser.rs')
        self.f_ser = find_fn(prog, '::serialize_internal', 'chardata.rs')

    def run(self, ex):
        self.setup_names(ex.prog)
        inp = self.inputs(ex)
        spec = Ref(Cell(spec_string(self.preserve)))
        p1 = self.parser()
        r1 = ex.call(self.f_parse, [Ref(Cell(p1)), inp, spec])
        if r1.variant != 'Ok':
            return ('rejected', r1)
        v1 = r1.fields[0]
        out1 = Str()
        ex.call(self.f_ser, [Ref(Cell(v1)), Ref(Cell(out1))])
        t1 = Slice(list(out1.b), 0, len(out1.b), False)
        p2 = self.parser()
        r2 = ex.call(self.f_parse, [Ref(Cell(p2)), t1, spec])
        if r2.variant != 'Ok':
            return ('reload-rejected', v1, out1, r2, p1)
        v2 = r2.fields[0]
        out2 = Str()
        ex.call(self.f_ser, [Ref(Cell(v2)), Ref(Cell(out2))])
        return ('ok', v1, out1, v2, out2, p1, p2)

    def replay_vals(self, m):
        return [le_bytes(self.n, 8)] + [[x] for x in model_bytes(m, self.bs)] + [[1 if self.strict else 0], [1 if self.preserve else 0]]

    def edge_ws(self, b):
        """value has white space at one of its ends (z3 Bool)"""
        if not b:
            return False
        return z3.Or(is_ws(b[0]), is_ws(b[-1]))

    def prop(self, out, ex):
        if out[0] == 'panic':
            # totality is C02's subject; not judged here
            self.cover('panic')
            return
        o = out[1]
        if o[0] == 'rejected':
            self.cover('rejected')
            return
        if o[0] == 'reload-rejected':
            self.cover('reload-rejected')
            self.require(ex, False, 'text written for a loaded value is rejected when loaded again')
            return
        _, v1, out1, v2, out2, p1, p2 = o
        a = cdata_str_bytes(v1)
        b = cdata_str_bytes(v2)
        self.cover('roundtrip')
        if len(a) < self.n:
            self.cover('value shorter than text (entity decoded or white space trimmed)')
        okc = bytes_eq(a, b)          # python False when the lengths differ
        if self.preserve:
            self.require(ex, okc, 'value changed by serialize -> load')
        else:
            # recorded finding (judged separately so that it hides nothing else): a character reference that decodes to white
            # space at the edge of a trimmed value is written back as literal white space and trimmed away on reload
            ew = self.edge_ws(a)
            self.require(ex, zor(ew, okc), 'value changed by serialize -> load')
            self.require(ex, zor(znot(ew), okc), 'value with decoded white space at its edge changed by serialize -> load',
                         known_key='C01-edge-whitespace-from-charref')
        self.require(ex, zor(znot(okc), bytes_eq(out1.b, out2.b)), 'second serialization differs from the first although the values are equal')


def zb(x):
    return z3.BoolVal(x) if isinstance(x, bool) else x


def zor(*xs):
    return z3.simplify(z3.Or(*[zb(x) for x in xs]))


def zand(*xs):
    return z3.simplify(z3.And(*[zb(x) for x in xs]))


def znot(x):
    return z3.simplify(z3.Not(zb(x)))


def make(base, name, **kw):
    cls = type(name, (base,), kw)
    cls.name = name
    REG[name] = cls
    return cls


# =====================================================================================================
# helpers shared by the value-level harnesses
# =====================================================================================================
def ref_trim(ex, bs):
    """reference trimming (XML white space as the tokenizer defines it) on symbolic bytes; forks per position"""
    s, e = 0, len(bs)
    while s < e and ex.decide(is_ws(bs[s])):
        s += 1
    while e > s and ex.decide(is_ws(bs[e - 1])):
        e -= 1
    return bs[s:e]


def entities_wellformed(ex, raw):
    """independent reading of XML 1.0 references: every & starts &lt; &gt; &amp; &apos; &quot; &#[0-9]+; or &#x[0-9a-fA-F]+;"""
    from models import is_digit, is_hexdigit
    lits = [b'&lt;', b'&gt;', b'&amp;', b'&apos;', b'&quot;']
    i = 0
    n = len(raw)
    while i < n:
        if not ex.decide(raw[i] == 0x26):
            i += 1
            continue
        matched = False
        for lit in lits:
            if i + len(lit) <= n and ex.decide(bytes_eq(raw[i:i + len(lit)], [bv(c, 8) for c in lit])):
                i += len(lit)
                matched = True
                break
        if matched:
            continue
        if i + 1 < n and ex.decide(raw[i + 1] == 0x23):
            j = i + 2
            hexa = False
            if j < n and ex.decide(raw[j] == 0x78):
                hexa = True
                j += 1
            k = j
            while k < n and ex.decide(is_hexdigit(raw[k]) if hexa else is_digit(raw[k])):
                k += 1
            if k > j and k < n and ex.decide(raw[k] == 0x3b):
                i = k + 1
                continue
        return False
    return True


def cdata_equal(a, b, float_eq_rust=False):
    """z3 Bool / python bool: two CharacterData values are identical (float_eq_rust: the type's own `==`, i.e. IEEE equality)"""
    if a.variant != b.variant:
        return False
    if a.variant == 'String':
        return bytes_eq(list(a.fields[0].b), list(b.fields[0].b))
    x, y = a.fields[0], b.fields[0]
    if isinstance(x, F):
        if float_eq_rust:
            return z3.simplify(z3.fpEQ(x.e, y.e))
        return z3.simplify(x.e == y.e)     # SMT equality of the float terms (same bits)
    return z3.simplify(x.e == y.e)


def warnings_of(p):
    return p.fields[P_WARNINGS].items


class UF:
    """uninterpreted functions over byte strings of a concrete length: any deterministic library function"""
    cache = {}

    @classmethod
    def get(cls, name, n, rng):
        k = (name, n)
        if k not in cls.cache:
            cls.cache[k] = z3.Function(f'{name}_{n}', *([z3.BitVecSort(8)] * n + [rng]))
        return cls.cache[k]

    @classmethod
    def app(cls, name, bs, rng, default):
        if not bs:
            return z3.Const(f'{name}_0', rng)
        return cls.get(name, len(bs), rng)(*bs)


def uf_validator(ex, args):
    """check_fn of a Pattern spec: an arbitrary deterministic predicate on the byte string"""
    bs = as_bytes_list(ex, args[0])
    return UF.app('pattern_ok', bs, z3.BoolSort(), None)


def install_enum_models(models):
    """EnumItem text <-> item: any deterministic lookup (from_bytes) that inverts to_str; justified by the C18 harnesses"""
    def from_bytes(ex, c, a):
        bs = as_bytes_list(ex, a[0])
        okf = UF.app('enumitem_known', bs, z3.BoolSort(), None)
        if ex.decide(okf):
            return ok(I(UF.app('enumitem_of', bs, z3.BitVecSort(16), None), False, 'u16'))
        return err(Opaque('ParseEnumItemError'))
    models.add(r'^autosar_data_specification::EnumItem::from_bytes$', from_bytes, prefer=True)
    models.rx.insert(0, models.rx.pop())


# =====================================================================================================
# C08: strict and lenient validation agree on values; strict has no holes (value level)
# =====================================================================================================
@register
class C08Value(ParserHarness):
    kind = 'string'       # string | pattern | uint | float | enum
    preserve = False
    max_length = None
    native = ('data', 'n_c08_value')
    ascii_only = True

    def make_spec(self, ex):
        if self.kind == 'string':
            return spec_string(self.preserve, self.max_length)
        if self.kind == 'pattern':
            return spec_pattern(uf_validator, self.max_length)
        if self.kind == 'uint':
            return spec_uint()
        if self.kind == 'float':
            return spec_float()
        if self.kind == 'enum':
            # symbolic 2-row table: arbitrary items and version masks; arbitrary file version bit
            self.rows = [(I(z3.BitVec(f'row{i}_item', 16), False, 'u16'), I(z3.BitVec(f'row{i}_mask', 32), False, 'u32')) for i in range(2)]
            return spec_enum(self.rows)
        raise Unsupported(self.kind)

    def run(self, ex):
        f_parse = find_fn(ex.prog, '::parse_character_data', 'parser.rs')
        if self.kind == 'enum':
            install_enum_models(ex.models)
        inp = self.inputs(ex)
        spec = self.make_spec(ex)
        ps = self.parser(True)
        pl = self.parser(False)
        if self.kind == 'enum':
            fv = z3.BitVec('fileversion', 32)
            ex.assume(z3.And(fv != 0, (fv & (fv - 1)) == 0, z3.ULT(fv, 1 << 21)))
            ps.fields[P_FILEVERSION] = I(fv, False, 'u32')
            pl.fields[P_FILEVERSION] = I(fv, False, 'u32')
            self.fv = fv
        rs = ex.call(f_parse, [Ref(Cell(ps)), inp, Ref(Cell(spec))])
        rl = ex.call(f_parse, [Ref(Cell(pl)), inp, Ref(Cell(spec))])
        return rs, rl, ps, pl, spec

    def replay_vals(self, m):
        kindno = ['string', 'pattern', 'uint', 'float', 'enum'].index(self.kind)
        return ([le_bytes(self.n, 8)] + [[x] for x in model_bytes(m, self.bs)] + [[kindno], [1 if self.preserve else 0],
                le_bytes(self.max_length if self.max_length is not None else 0xffffffffffffffff, 8)])

    def prop(self, out, ex):
        if out[0] == 'panic':
            self.cover('panic')
            return
        rs, rl, ps, pl, spec = out[1]
        wl = warnings_of(pl)
        ws = warnings_of(ps)
        self.require(ex, len(ws) == 0, 'strict mode recorded a warning instead of failing')
        if rs.variant == 'Ok':
            self.cover('strict accepts')
            self.require(ex, rl.variant == 'Ok', 'strict loading accepts a value that lenient loading rejects')
            self.require(ex, len(wl) == 0, 'lenient loading warns about a value that strict loading accepts')
            if rl.variant == 'Ok':
                self.require(ex, cdata_equal(rs.fields[0], rl.fields[0]), 'strict and lenient loading produce different values')
            self.no_holes(ex, rs.fields[0], spec)
        else:
            self.cover('strict rejects')
            sl, ssrc = err_parts(rs.fields[0])
            self.require(ex, self.line_ok(sl), 'strict error names a line outside the document')
            if rl.variant == 'Ok':
                self.cover('lenient accepts with warning')
                self.require(ex, len(wl) > 0, 'lenient loading silently accepts a value that strict loading rejects')
                if wl:
                    wline, wsrc = err_parts(wl[0])
                    self.require(ex, wsrc.variant == ssrc.variant, f'strict error ({ssrc.variant}) is not the first lenient warning ({wsrc.variant})')
                    self.require(ex, z3.simplify(wline.e == sl.e), 'strict error and first lenient warning name different lines')
            else:
                self.cover('both reject')
                lline, lsrc = err_parts(rl.fields[0])
                if not wl:
                    self.require(ex, lsrc.variant == ssrc.variant, f'strict error ({ssrc.variant}) differs from the lenient hard error ({lsrc.variant})')
                else:
                    wline, wsrc = err_parts(wl[0])
                    self.require(ex, wsrc.variant == ssrc.variant, f'strict error ({ssrc.variant}) is not the first lenient warning ({wsrc.variant})')
        for w in wl:
            wline, _ = err_parts(w)
            self.require(ex, self.line_ok(wline), 'lenient warning names a line outside the document')

    def no_holes(self, ex, v, spec):
        """strict accepted: the documented constraint of the value type holds (independent reading of the input)"""
        trimmed = ref_trim(ex, list(self.bs))
        if self.kind == 'string':
            raw = list(self.bs) if self.preserve else trimmed
            if self.max_length is not None:
                self.require(ex, len(raw) <= self.max_length, 'strict loading accepts a string longer than max_length')
            self.require(ex, entities_wellformed(ex, raw), 'strict loading accepts a malformed entity / character reference')
        elif self.kind == 'pattern':
            if self.max_length is not None:
                self.require(ex, len(trimmed) <= self.max_length, 'strict loading accepts a pattern value longer than max_length')
            self.require(ex, UF.app('pattern_ok', trimmed, z3.BoolSort(), None), 'strict loading accepts a value its validator rejects')
            self.require(ex, bytes_eq(cdata_str_bytes(v), trimmed), 'pattern value is not the trimmed text')
        elif self.kind == 'uint':
            # digits only (an optional leading + is what str::parse accepts) and the value is the decimal reading
            t = trimmed
            if t and ex.decide(t[0] == 0x2b):
                t = t[1:]
            self.require(ex, len(t) > 0, 'strict loading accepts an empty number')
            if t:
                from models import is_digit
                self.require(ex, zand(*[is_digit(b) for b in t]), 'strict loading accepts a non-numeric unsigned integer')
                acc = bv(0, 128)
                for b in t:
                    acc = acc * 10 + z3.ZeroExt(120, b - 0x30)
                self.require(ex, z3.simplify(z3.ZeroExt(64, v.fields[0].e) == acc), 'unsigned integer value differs from the decimal reading of the text')
        elif self.kind == 'enum':
            item = v.fields[0].e
            inrow = [zand(item == r[0].e, (r[1].e & self.fv) != 0) for r in self.rows]
            # find() returns the FIRST row with that item: row1 only counts when row0 is a different item
            first = zor(inrow[0], zand(self.rows[0][0].e != item, inrow[1]))
            self.require(ex, first, 'strict loading accepts an enum item that is not listed for this element or not available in the file version')


# =====================================================================================================
# C02: parser value kernels are total: no panic on any byte string; error / warning lines within the document
# =====================================================================================================
@register
class C02ValueTotal(C08Value):
    ascii_only = False
    native = ('data', 'n_c02_value_total')

    def run(self, ex):
        f_parse = find_fn(ex.prog, '::parse_character_data', 'parser.rs')
        if self.kind == 'enum':
            install_enum_models(ex.models)
        inp = self.inputs(ex)
        spec = self.make_spec(ex)
        p = self.parser(self.strict)
        if self.kind == 'enum':
            fv = z3.BitVec('fileversion', 32)
            ex.assume(z3.And(fv != 0, (fv & (fv - 1)) == 0, z3.ULT(fv, 1 << 21)))
            p.fields[P_FILEVERSION] = I(fv, False, 'u32')
        r = ex.call(f_parse, [Ref(Cell(p)), inp, Ref(Cell(spec))])
        return r, p

    def replay_vals(self, m):
        kindno = ['string', 'pattern', 'uint', 'float', 'enum'].index(self.kind)
        return ([le_bytes(self.n, 8)] + [[x] for x in model_bytes(m, self.bs)] + [[kindno], [1 if self.preserve else 0],
                le_bytes(self.max_length if self.max_length is not None else 0xffffffffffffffff, 8), [1 if self.strict else 0]])

    def prop(self, out, ex):
        if out[0] == 'panic':
            self.cover('panic')
            self.require(ex, False, 'panic while loading a value: ' + out[1])
            return
        r, p = out[1]
        if r.variant == 'Ok':
            self.cover('accepted')
        else:
            self.cover('rejected')
            l, _ = err_parts(r.fields[0])
            self.require(ex, self.line_ok(l), 'error names a line outside the document')
        for w in warnings_of(p):
            wl, _ = err_parts(w)
            self.require(ex, self.line_ok(wl), 'warning names a line outside the document')


# =====================================================================================================
# spec tables read from the repository source (names only): used by to_str models
# =====================================================================================================
_TABLES = {}


def string_table(fname):
    import os
    import re
    if fname not in _TABLES:
        src = open(os.path.join(REPO, 'autosar-data-specification', 'src', fname), encoding='utf-8').read()
        m = re.search(r'const STRING_TABLE: \[&\'static str; (\d+)\] = \[(.*?)\];', src, re.S)
        items = re.findall(r'"((?:[^"\\]|\\.)*)"', m.group(2))
        if len(items) != int(m.group(1)):
            raise Unsupported(f'{fname}: STRING_TABLE has {len(items)} entries, declared {m.group(1)}')
        _TABLES[fname] = [x.encode() for x in items]
    return _TABLES[fname]


def install_to_str_models(models):
    from mirexec import str_slice

    def mk(fname):
        def to_str(ex, c, a):
            v = ex.deref(a[0]) if isinstance(a[0], (Ref, ElemRef)) else a[0]
            idx = ex.concretize(v, limit=16)
            tab = string_table(fname)
            if idx >= len(tab):
                raise Unsupported('item index outside the table')
            return str_slice(tab[idx])
        return to_str
    models.add(r'^autosar_data_specification::EnumItem::to_str$', mk('enumitem.rs'), prefer=True)
    models.rx.insert(0, models.rx.pop())
    models.add(r'^autosar_data_specification::AttributeName::to_str$', mk('attributename.rs'), prefer=True)
    models.rx.insert(0, models.rx.pop())


# =====================================================================================================
# C14: the value ordering used by sort is a total order consistent with equality
# =====================================================================================================
@register
class C14ValueOrder(E2Harness):
    """a, b, c: CharacterData values of the given shapes: 'e' enum item (one of the first 3 items), 's<k>' string of k bytes,
    'u' any u64, 'f' any f64 bit pattern"""
    shapes = ['s1', 's1', 's1']
    native = ('data', 'n_c14_value_order')
    with_attr = False

    def mkval(self, ex, tag, shape):
        if shape == 'e':
            it = z3.BitVec(f'{tag}_item', 16)
            ex.assume(z3.ULT(it, 3))
            self.invars.append(('e', [it]))
            return Agg('CharacterData', 'Enum', [I(it, False, 'u16')])
        if shape.startswith('s'):
            k = int(shape[1:])
            bs = sym_bytes(f'{tag}_b', k)
            for b in bs:
                ex.assume(z3.ULT(b, 0x80))
            self.invars.append(('s', bs))
            return Agg('CharacterData', 'String', [Str(bs)])
        if shape == 'u':
            v = z3.BitVec(f'{tag}_u', 64)
            self.invars.append(('u', [v]))
            return Agg('CharacterData', 'UnsignedInteger', [I(v, False, 'u64')])
        if shape == 'f':
            bits = z3.BitVec(f'{tag}_fbits', 64)
            self.invars.append(('f', [bits]))
            return Agg('CharacterData', 'Float', [F(z3.fpBVToFP(bits, z3.Float64()))])
        raise Unsupported(shape)

    def run(self, ex):
        install_to_str_models(ex.models)
        f_cmp = find_fn(ex.prog, '::cmp', 'chardata.rs')
        self.invars = []
        vals = [self.mkval(ex, t, s) for t, s in zip('abc', self.shapes)]
        if self.with_attr:
            f_acmp = find_fn(ex.prog, '::cmp', 'lib.rs:563')
            names = []
            for t in 'abc':
                nm = z3.BitVec(f'{t}_attr', 16)
                ex.assume(z3.ULT(nm, 3))
                names.append(nm)
                self.invars.append(('n', [nm]))
            objs = [Agg('Attribute', None, [I(n_, False, 'u16'), v]) for n_, v in zip(names, vals)]
            cmpf = lambda x, y: ex.call(f_acmp, [Ref(Cell(x)), Ref(Cell(y))])
        else:
            objs = vals
            cmpf = lambda x, y: ex.call(f_cmp, [Ref(Cell(x)), Ref(Cell(y))])
        a, b, c = objs
        res = dict(ab=cmpf(a, b).variant, ba=cmpf(b, a).variant, bc=cmpf(b, c).variant, ac=cmpf(a, c).variant, aa=cmpf(a, a).variant)
        return res, vals, (names if self.with_attr else None)

    def replay_vals(self, m):
        out = [[1 if self.with_attr else 0]]
        for kind, terms in self.invars:
            vs = model_bytes(m, terms) if kind in ('s',) else None
            if kind == 'n':
                continue
            if kind == 'e':
                out += [[0], le_bytes(m.eval(terms[0], model_completion=True).as_long(), 2)]
            elif kind == 's':
                out += [[1], le_bytes(len(terms), 8)] + [[x] for x in vs]
            elif kind == 'u':
                out += [[2], le_bytes(m.eval(terms[0], model_completion=True).as_long(), 8)]
            elif kind == 'f':
                out += [[3], le_bytes(m.eval(terms[0], model_completion=True).as_long(), 8)]
        for kind, terms in self.invars:
            if kind == 'n':
                out += [le_bytes(m.eval(terms[0], model_completion=True).as_long(), 2)]
        return out

    def describe(self, m):
        parts = []
        for kind, terms in self.invars:
            if kind == 's':
                parts.append(repr(bytes(model_bytes(m, terms))))
            elif kind == 'f':
                import struct
                bits = m.eval(terms[0], model_completion=True).as_long()
                parts.append('f64:' + repr(struct.unpack('<d', struct.pack('<Q', bits))[0]))
            else:
                parts.append(f'{kind}:{m.eval(terms[0], model_completion=True).as_long()}')
        return ', '.join(parts)

    def nan_involved(self, vals):
        fl = [v.fields[0].e for v in vals if v.variant == 'Float']
        if not fl:
            return False
        return zor(*[z3.fpIsNaN(x) for x in fl])

    def prop(self, out, ex):
        if out[0] == 'panic':
            self.require(ex, False, 'comparison panicked: ' + out[1])
            return
        r, vals, names = out[1]
        self.cover('compared')
        rev = {'Less': 'Greater', 'Greater': 'Less', 'Equal': 'Equal'}
        le = lambda o: o in ('Less', 'Equal')
        okv = True
        msg = ''
        if r['aa'] != 'Equal':
            okv, msg = False, 'cmp(a, a) != Equal'
        elif r['ba'] != rev[r['ab']]:
            okv, msg = False, f"not antisymmetric: cmp(a,b)={r['ab']} but cmp(b,a)={r['ba']}"
        elif le(r['ab']) and le(r['bc']) and not le(r['ac']):
            okv, msg = False, f"not transitive: a<=b ({r['ab']}), b<=c ({r['bc']}) but cmp(a,c)={r['ac']}"
        elif le(r['ab']) and le(r['bc']) and (r['ab'] == 'Less' or r['bc'] == 'Less') and r['ac'] != 'Less':
            okv, msg = False, f"not transitive: cmp(a,b)={r['ab']}, cmp(b,c)={r['bc']} but cmp(a,c)={r['ac']}"
        if okv:
            # Equal <=> identical values (the sort is a canonicalisation only if ties are real ties)
            same = cdata_equal(vals[0], vals[1], float_eq_rust=True)
            if names is not None:
                same = zand(same, names[0] == names[1])
            if r['ab'] == 'Equal':
                cond = same
                msg = 'cmp(a,b) == Equal for different values'
            else:
                cond = znot(same)
                msg = 'cmp(a,b) != Equal for identical values'
            nan = self.nan_involved(vals)
            self.require(ex, zor(nan, cond), msg)
            self.require(ex, zor(znot(nan), cond), msg + ' (NaN)', known_key='C14-float-nan-compares-equal')
            return
        nan = self.nan_involved(vals)
        self.require(ex, zb(nan), msg)        # without NaN this must not happen
        self.require(ex, znot(nan), msg + ' (NaN)', known_key='C14-float-nan-compares-equal')


# =====================================================================================================
# C19 (validators that build heap containers, out of CBMC's reach): validator MIR == reference DFA
# =====================================================================================================
@register
class C19Validator(E2Harness):
    fn = 'regex::validate_regex_15'
    n = 4
    dfa = None           # dict(cls=[256], trans=[[..]], accept=[..]) from tools/regex_dfa.py
    native = ('spec', 'n_c19_validator')
    part = None
    entry = 0

    def ref_accepts(self, bs):
        """reference automaton over symbolic bytes as one z3 term (no forking); the same term on every path"""
        if getattr(self, '_ref', None) is None:
            self._ref = self._ref_accepts(bs)
        return self._ref

    def _ref_accepts(self, bs):
        d = self.dfa
        ncls = len(d['trans'][0])
        nst = len(d['trans'])
        # class of a byte: ite chain over the 256-entry class table, compressed into ranges
        def cls_of(b):
            ranges = []
            start = 0
            for v in range(1, 257):
                if v == 256 or d['cls'][v] != d['cls'][start]:
                    ranges.append((start, v - 1, d['cls'][start]))
                    start = v
            e = z3.IntVal(ranges[-1][2])
            for lo, hi, c in reversed(ranges[:-1]):
                e = z3.If(z3.ULE(b, hi), z3.IntVal(c), e)
            return e
        st = z3.IntVal(0)
        for b in bs:
            c = cls_of(b)
            nxt = z3.IntVal(d['dead'] if d.get('dead') is not None else 0)
            for s in range(nst):
                for k in range(ncls):
                    t = d['trans'][s][k]
                    if t == d.get('dead'):
                        continue
                    nxt = z3.If(z3.And(st == s, c == k), z3.IntVal(t), nxt)
            st = z3.simplify(nxt)
        acc = [s for s in range(nst) if d['accept'][s]]
        return z3.simplify(z3.Or(*[st == s for s in acc])) if acc else z3.BoolVal(False)

    def run(self, ex):
        self.bs = sym_bytes('b', self.n)
        if self.part is not None:
            i, k = self.part
            if self.n == 0:
                if i != 0:
                    raise Infeasible()
            else:
                ex.assume(z3.URem(self.bs[0], k) == i)
        r = ex.call(self.fn, [Slice(self.bs, 0, self.n, False)])
        return r

    def replay_vals(self, m):
        return [le_bytes(self.entry, 8), le_bytes(self.n, 8)] + [[x] for x in model_bytes(m, self.bs)]

    def describe(self, m):
        return repr(bytes(model_bytes(m, self.bs)))

    def prop(self, out, ex):
        if out[0] == 'panic':
            self.require(ex, False, 'validator panicked: ' + out[1])
            return
        got = out[1]
        want = self.ref_accepts(self.bs)
        if isinstance(got, bool):
            self.cover('accepts' if got else 'rejects')
            self.require(ex, want if got else z3.Not(want), 'validator and published regex disagree')
        else:
            self.cover('symbolic verdict')
            self.require(ex, got == want, 'validator and published regex disagree')
