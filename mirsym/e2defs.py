"""E2 harness definitions (engine: MIR symbolic executor). Each class = one decision problem over the real MIR of /repo."""
import z3
from e2lib import *
from models import is_ws, lex_lt

REG = {}


def register(cls):
    REG[cls.__name__] = cls
    return cls


def cdata_str_bytes(v):
    if isinstance(v, Agg) and v.ty == 'CharacterData' and v.variant == 'String':
        return list(v.fields[0].b)
    raise Unsupported(f'not a CharacterData::String: {v!r}')


class ParserHarness(E2Harness):
    """common: symbolic ASCII/any input of concrete length n, symbolic line L in a document of T lines"""
    n = 4
    ascii_only = True
    strict = True
    exclude = ()          # byte values that cannot occur in this kind of input (e.g. '<' inside character data)
    part = None           # (i, k): only inputs whose first byte is congruent i mod k (work split over processes)

    def inputs(self, ex):
        self.bs = sym_bytes('b', self.n)
        if self.part is not None:
            i, k = self.part
            if self.n == 0:
                if i != 0:
                    raise Infeasible()
            else:
                ex.assume(z3.URem(self.bs[0], k) == i)
        if self.ascii_only:
            for b in self.bs:
                ex.assume(z3.ULT(b, 0x80))
        for x in self.exclude:
            for b in self.bs:
                ex.assume(b != x)
        self.line = z3.BitVec('line', 64)
        self.total = z3.BitVec('total', 64)
        ex.assume(z3.And(z3.UGE(self.line, 1), z3.ULE(self.line, self.total)))
        return Slice(self.bs, 0, self.n, False)

    def parser(self, strict=None):
        return mk_parser(self.strict if strict is None else strict, I(self.line, False, 'usize'))

    def describe(self, m):
        b = bytes(model_bytes(m, self.bs))
        return repr(b)

    def line_ok(self, line_i):
        return z3.And(z3.UGE(line_i.e, 1), z3.ULE(line_i.e, self.total))


# =====================================================================================================
# C01 / K1: text values survive load -> serialize -> load, and the second serialization is byte-identical
# =====================================================================================================
@register
class C01RoundTrip(ParserHarness):
    preserve = False
    native = ('data', 'n_c01_text_roundtrip')

    def setup_names(self, prog):
        self.f_parse = find_fn(prog, '::parse_character_data', 'parser.rs')
        self.f_ser = find_fn(prog, '::serialize_internal', 'chardata.rs')

    def run(self, ex):
        self.setup_names(ex.prog)
        inp = self.inputs(ex)
        spec = Ref(Cell(spec_string(self.preserve)))
        p1 = self.parser()
        r1 = ex.call(self.f_parse, [Ref(Cell(p1)), inp, spec])
        if r1.variant != 'Ok':
            return ('rejected', r1)
        v1 = r1.fields[0]
        out1 = Str()
        ex.call(self.f_ser, [Ref(Cell(v1)), Ref(Cell(out1))])
        t1 = Slice(list(out1.b), 0, len(out1.b), False)
        p2 = self.parser()
        r2 = ex.call(self.f_parse, [Ref(Cell(p2)), t1, spec])
        if r2.variant != 'Ok':
            return ('reload-rejected', v1, out1, r2, p1)
        v2 = r2.fields[0]
        out2 = Str()
        ex.call(self.f_ser, [Ref(Cell(v2)), Ref(Cell(out2))])
        return ('ok', v1, out1, v2, out2, p1, p2)

    def replay_vals(self, m):
        return [le_bytes(self.n, 8)] + [[x] for x in model_bytes(m, self.bs)] + [[1 if self.strict else 0], [1 if self.preserve else 0]]

    def edge_ws(self, b):
        """value has white space at one of its ends (z3 Bool)"""
        if not b:
            return False
        return z3.Or(is_ws(b[0]), is_ws(b[-1]))

    def prop(self, out, ex):
        if out[0] == 'panic':
            # totality is C02's subject; not judged here
            self.cover('panic')
            return
        o = out[1]
        if o[0] == 'rejected':
            self.cover('rejected')
            return
        if o[0] == 'reload-rejected':
            self.cover('reload-rejected')
            self.require(ex, False, 'text written for a loaded value is rejected when loaded again')
            return
        _, v1, out1, v2, out2, p1, p2 = o
        a = cdata_str_bytes(v1)
        b = cdata_str_bytes(v2)
        self.cover('roundtrip')
        if len(a) < self.n:
            self.cover('value shorter than text (entity decoded or white space trimmed)')
        okc = bytes_eq(a, b)          # python False when the lengths differ
        if self.preserve:
            self.require(ex, okc, 'value changed by serialize -> load')
        else:
            # recorded finding (judged separately so that it hides nothing else): a character reference that decodes to white
            # space at the edge of a trimmed value is written back as literal white space and trimmed away on reload
            ew = self.edge_ws(a)
            self.require(ex, zor(ew, okc), 'value changed by serialize -> load')
            self.require(ex, zor(znot(ew), okc), 'value with decoded white space at its edge changed by serialize -> load',
                         known_key='C01-edge-whitespace-from-charref')
        self.require(ex, zor(znot(okc), bytes_eq(out1.b, out2.b)), 'second serialization differs from the first although the values are equal')


def zb(x):
    return z3.BoolVal(x) if isinstance(x, bool) else x


def zor(*xs):
    return z3.simplify(z3.Or(*[zb(x) for x in xs]))


def zand(*xs):
    return z3.simplify(z3.And(*[zb(x) for x in xs]))


def znot(x):
    return z3.simplify(z3.Not(zb(x)))


def make(base, name, **kw):
    cls = type(name, (base,), kw)
    cls.name = name
    REG[name] = cls
    return cls
