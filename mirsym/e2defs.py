"""E2 harness definitions (engine: MIR symbolic executor). Each class = one decision problem over the real MIR of /repo."""
import z3
from e2lib import *
from models import is_ws, lex_lt
from mirexec import str_slice

REG = {}


def register(cls):
    REG[cls.__name__] = cls
    return cls


def cdata_str_bytes(v):
    if isinstance(v, Agg) and v.ty == 'CharacterData' and v.variant == 'String':
        return list(v.fields[0].b)
    raise Unsupported(f'not a CharacterData::String: {v!r}')


class ParserHarness(E2Harness):
    """common: symbolic ASCII/any input of concrete length n, symbolic line L in a document of T lines"""
    n = 4
    ascii_only = True
    strict = True
    exclude = ()          # byte values that cannot occur in this kind of input (e.g. '<' inside character data)
    part = None           # (i, k): only inputs whose first byte is congruent i mod k (work split over processes)

    def inputs(self, ex):
        self.bs = sym_bytes('b', self.n)
        if self.part is not None:
            i, k = self.part
            if self.n == 0:
                if i != 0:
                    raise Infeasible()
            else:
                ex.assume(z3.URem(self.bs[0], k) == i)
        if self.ascii_only:
            for b in self.bs:
                ex.assume(z3.ULT(b, 0x80))
        for x in self.exclude:
            for b in self.bs:
                ex.assume(b != x)
        self.line = z3.BitVec('line', 64)
        self.total = z3.BitVec('total', 64)
        ex.assume(z3.And(z3.UGE(self.line, 1), z3.ULE(self.line, self.total)))
        return Slice(self.bs, 0, self.n, False)

    def parser(self, strict=None):
        return mk_parser(self.strict if strict is None else strict, I(self.line, False, 'usize'))

    def describe(self, m):
        b = bytes(model_bytes(m, self.bs))
        return repr(b)

    def line_ok(self, line_i):
        return z3.And(z3.UGE(line_i.e, 1), z3.ULE(line_i.e, self.total))


# =====================================================================================================
# C01 / K1: text values survive load -> serialize -> load, and the second serialization is byte-identical
# =====================================================================================================
@register
class C01RoundTrip(ParserHarness):
    preserve = False
    native = ('data', 'n_c01_text_roundtrip')

    def setup_names(self, prog):
        self.f_parse = find_fn(prog, '::parse_character_data', 'parser.rs')
        self.f_ser = find_fn(prog, '::serialize_internal', 'chardata.rs')

    def run(self, ex):
        self.setup_names(ex.prog)
        inp = self.inputs(ex)
        spec = Ref(Cell(spec_string(self.preserve)))
        p1 = self.parser()
        r1 = ex.call(self.f_parse, [Ref(Cell(p1)), inp, spec])
        if r1.variant != 'Ok':
            return ('rejected', r1)
        v1 = r1.fields[0]
        out1 = Str()
        ex.call(self.f_ser, [Ref(Cell(v1)), Ref(Cell(out1))])
        t1 = Slice(list(out1.b), 0, len(out1.b), False)
        p2 = self.parser()
        r2 = ex.call(self.f_parse, [Ref(Cell(p2)), t1, spec])
        if r2.variant != 'Ok':
            return ('reload-rejected', v1, out1, r2, p1)
        v2 = r2.fields[0]
        out2 = Str()
        ex.call(self.f_ser, [Ref(Cell(v2)), Ref(Cell(out2))])
        return ('ok', v1, out1, v2, out2, p1, p2)

    def replay_vals(self, m):
        return [le_bytes(self.n, 8)] + [[x] for x in model_bytes(m, self.bs)] + [[1 if self.strict else 0], [1 if self.preserve else 0]]

    def edge_ws(self, b):
        """value has white space at one of its ends (z3 Bool)"""
        if not b:
            return False
        return z3.Or(is_ws(b[0]), is_ws(b[-1]))

    def prop(self, out, ex):
        if out[0] == 'panic':
            # totality is C02's subject; not judged here
            self.cover('panic')
            return
        o = out[1]
        if o[0] == 'rejected':
            self.cover('rejected')
            return
        if o[0] == 'reload-rejected':
            self.cover('reload-rejected')
            self.require(ex, False, 'text written for a loaded value is rejected when loaded again')
            return
        _, v1, out1, v2, out2, p1, p2 = o
        a = cdata_str_bytes(v1)
        b = cdata_str_bytes(v2)
        self.cover('roundtrip')
        if len(a) < self.n:
            self.cover('value shorter than text (entity decoded or white space trimmed)')
        okc = bytes_eq(a, b)          # python False when the lengths differ
        if self.preserve:
            self.require(ex, okc, 'value changed by serialize -> load')
        else:
            # recorded finding (judged separately so that it hides nothing else): a character reference that decodes to white
            # space at the edge of a trimmed value is written back as literal white space and trimmed away on reload
            ew = self.edge_ws(a)
            self.require(ex, zor(ew, okc), 'value changed by serialize -> load')
            self.require(ex, zor(znot(ew), okc), 'value with decoded white space at its edge changed by serialize -> load',
                         known_key='C01-edge-whitespace-from-charref')
        self.require(ex, zor(znot(okc), bytes_eq(out1.b, out2.b)), 'second serialization differs from the first although the values are equal')


def zb(x):
    return z3.BoolVal(x) if isinstance(x, bool) else x


def zor(*xs):
    return z3.simplify(z3.Or(*[zb(x) for x in xs]))


def zand(*xs):
    return z3.simplify(z3.And(*[zb(x) for x in xs]))


def znot(x):
    return z3.simplify(z3.Not(zb(x)))


def order_violation(r):
    """r: dict with the six pairwise results 'ab','ba','ac','ca','bc','cb' and 'aa'. returns None or a message.
    checks reflexivity, antisymmetry of every pair and transitivity of every ordered triple"""
    rev = {'Less': 'Greater', 'Greater': 'Less', 'Equal': 'Equal'}
    le = lambda o: o in ('Less', 'Equal')
    if r['aa'] != 'Equal':
        return 'cmp(a, a) != Equal'
    for x, y in (('a', 'b'), ('a', 'c'), ('b', 'c')):
        if r[y + x] != rev[r[x + y]]:
            return f"not antisymmetric: cmp({x},{y})={r[x + y]} but cmp({y},{x})={r[y + x]}"
    import itertools
    for x, y, z in itertools.permutations('abc'):
        xy, yz, xz = r[x + y], r[y + z], r[x + z]
        if le(xy) and le(yz):
            if not le(xz) or ((xy == 'Less' or yz == 'Less') and xz != 'Less'):
                return f"not transitive: cmp({x},{y})={xy}, cmp({y},{z})={yz} but cmp({x},{z})={xz}"
    return None


def make(base, name, **kw):
    cls = type(name, (base,), kw)
    cls.name = name
    REG[name] = cls
    return cls


# =====================================================================================================
# helpers shared by the value-level harnesses
# =====================================================================================================
def ref_trim(ex, bs):
    """reference trimming (XML white space as the tokenizer defines it) on symbolic bytes; forks per position"""
    s, e = 0, len(bs)
    while s < e and ex.decide(is_ws(bs[s])):
        s += 1
    while e > s and ex.decide(is_ws(bs[e - 1])):
        e -= 1
    return bs[s:e]


def entities_wellformed(ex, raw):
    """independent reading of XML 1.0 references: every & starts &lt; &gt; &amp; &apos; &quot; &#[0-9]+; or &#x[0-9a-fA-F]+;"""
    from models import is_digit, is_hexdigit
    lits = [b'&lt;', b'&gt;', b'&amp;', b'&apos;', b'&quot;']
    i = 0
    n = len(raw)
    while i < n:
        if not ex.decide(raw[i] == 0x26):
            i += 1
            continue
        matched = False
        for lit in lits:
            if i + len(lit) <= n and ex.decide(bytes_eq(raw[i:i + len(lit)], [bv(c, 8) for c in lit])):
                i += len(lit)
                matched = True
                break
        if matched:
            continue
        if i + 1 < n and ex.decide(raw[i + 1] == 0x23):
            j = i + 2
            hexa = False
            if j < n and ex.decide(raw[j] == 0x78):
                hexa = True
                j += 1
            k = j
            while k < n and ex.decide(is_hexdigit(raw[k]) if hexa else is_digit(raw[k])):
                k += 1
            if k > j and k < n and ex.decide(raw[k] == 0x3b):
                i = k + 1
                continue
        return False
    return True


def cdata_equal(a, b, float_eq_rust=False):
    """z3 Bool / python bool: two CharacterData values are identical (float_eq_rust: the type's own `==`, i.e. IEEE equality)"""
    if a.variant != b.variant:
        return False
    if a.variant == 'String':
        return bytes_eq(list(a.fields[0].b), list(b.fields[0].b))
    x, y = a.fields[0], b.fields[0]
    if isinstance(x, F):
        if float_eq_rust:
            return z3.simplify(z3.fpEQ(x.e, y.e))
        return z3.simplify(x.e == y.e)     # SMT equality of the float terms (same bits)
    return z3.simplify(x.e == y.e)


def warnings_of(p):
    return p.fields[P_WARNINGS].items


class UF:
    """uninterpreted functions over byte strings of a concrete length: any deterministic library function"""
    cache = {}

    @classmethod
    def get(cls, name, n, rng):
        k = (name, n)
        if k not in cls.cache:
            cls.cache[k] = z3.Function(f'{name}_{n}', *([z3.BitVecSort(8)] * n + [rng]))
        return cls.cache[k]

    @classmethod
    def app(cls, name, bs, rng, default):
        if not bs:
            return z3.Const(f'{name}_0', rng)
        return cls.get(name, len(bs), rng)(*bs)


def uf_validator(ex, args):
    """check_fn of a Pattern spec: an arbitrary deterministic predicate on the byte string"""
    bs = as_bytes_list(ex, args[0])
    return UF.app('pattern_ok', bs, z3.BoolSort(), None)


def install_enum_models(models):
    """EnumItem text <-> item: any deterministic lookup (from_bytes) that inverts to_str; justified by the C18 harnesses"""
    def from_bytes(ex, c, a):
        bs = as_bytes_list(ex, a[0])
        okf = UF.app('enumitem_known', bs, z3.BoolSort(), None)
        if ex.decide(okf):
            return ok(I(UF.app('enumitem_of', bs, z3.BitVecSort(16), None), False, 'u16'))
        return err(Opaque('ParseEnumItemError'))
    models.add(r'^autosar_data_specification::EnumItem::from_bytes$', from_bytes, prefer=True)
    models.rx.insert(0, models.rx.pop())


# =====================================================================================================
# C08: strict and lenient validation agree on values; strict has no holes (value level)
# =====================================================================================================
@register
class C08Value(ParserHarness):
    kind = 'string'       # string | pattern | uint | float | enum
    preserve = False
    max_length = None
    native = ('data', 'n_c08_value')
    ascii_only = True

    def make_spec(self, ex):
        if self.kind == 'string':
            return spec_string(self.preserve, self.max_length)
        if self.kind == 'pattern':
            return spec_pattern(uf_validator, self.max_length)
        if self.kind == 'uint':
            return spec_uint()
        if self.kind == 'float':
            return spec_float()
        if self.kind == 'enum':
            # symbolic 2-row table: arbitrary items and version masks; arbitrary file version bit
            self.rows = [(I(z3.BitVec(f'row{i}_item', 16), False, 'u16'), I(z3.BitVec(f'row{i}_mask', 32), False, 'u32')) for i in range(2)]
            return spec_enum(self.rows)
        raise Unsupported(self.kind)

    def run(self, ex):
        f_parse = find_fn(ex.prog, '::parse_character_data', 'parser.rs')
        if self.kind == 'enum':
            install_enum_models(ex.models)
        inp = self.inputs(ex)
        spec = self.make_spec(ex)
        ps = self.parser(True)
        pl = self.parser(False)
        if self.kind == 'enum':
            fv = z3.BitVec('fileversion', 32)
            ex.assume(z3.And(fv != 0, (fv & (fv - 1)) == 0, z3.ULT(fv, 1 << 21)))
            ps.fields[P_FILEVERSION] = I(fv, False, 'u32')
            pl.fields[P_FILEVERSION] = I(fv, False, 'u32')
            self.fv = fv
        rs = ex.call(f_parse, [Ref(Cell(ps)), inp, Ref(Cell(spec))])
        rl = ex.call(f_parse, [Ref(Cell(pl)), inp, Ref(Cell(spec))])
        return rs, rl, ps, pl, spec

    def replay_vals(self, m):
        kindno = ['string', 'pattern', 'uint', 'float', 'enum'].index(self.kind)
        return ([le_bytes(self.n, 8)] + [[x] for x in model_bytes(m, self.bs)] + [[kindno], [1 if self.preserve else 0],
                le_bytes(self.max_length if self.max_length is not None else 0xffffffffffffffff, 8)])

    def prop(self, out, ex):
        if out[0] == 'panic':
            self.cover('panic')
            return
        rs, rl, ps, pl, spec = out[1]
        wl = warnings_of(pl)
        ws = warnings_of(ps)
        self.require(ex, len(ws) == 0, 'strict mode recorded a warning instead of failing')
        if rs.variant == 'Ok':
            self.cover('strict accepts')
            self.require(ex, rl.variant == 'Ok', 'strict loading accepts a value that lenient loading rejects')
            self.require(ex, len(wl) == 0, 'lenient loading warns about a value that strict loading accepts')
            if rl.variant == 'Ok':
                self.require(ex, cdata_equal(rs.fields[0], rl.fields[0]), 'strict and lenient loading produce different values')
            self.no_holes(ex, rs.fields[0], spec)
        else:
            self.cover('strict rejects')
            sl, ssrc = err_parts(rs.fields[0])
            self.require(ex, self.line_ok(sl), 'strict error names a line outside the document')
            if rl.variant == 'Ok':
                self.cover('lenient accepts with warning')
                self.require(ex, len(wl) > 0, 'lenient loading silently accepts a value that strict loading rejects')
                if wl:
                    wline, wsrc = err_parts(wl[0])
                    self.require(ex, wsrc.variant == ssrc.variant, f'strict error ({ssrc.variant}) is not the first lenient warning ({wsrc.variant})')
                    self.require(ex, z3.simplify(wline.e == sl.e), 'strict error and first lenient warning name different lines')
            else:
                self.cover('both reject')
                lline, lsrc = err_parts(rl.fields[0])
                if not wl:
                    self.require(ex, lsrc.variant == ssrc.variant, f'strict error ({ssrc.variant}) differs from the lenient hard error ({lsrc.variant})')
                else:
                    wline, wsrc = err_parts(wl[0])
                    self.require(ex, wsrc.variant == ssrc.variant, f'strict error ({ssrc.variant}) is not the first lenient warning ({wsrc.variant})')
        for w in wl:
            wline, _ = err_parts(w)
            self.require(ex, self.line_ok(wline), 'lenient warning names a line outside the document')

    def no_holes(self, ex, v, spec):
        """strict accepted: the documented constraint of the value type holds (independent reading of the input)"""
        trimmed = ref_trim(ex, list(self.bs))
        if self.kind == 'string':
            raw = list(self.bs) if self.preserve else trimmed
            if self.max_length is not None:
                self.require(ex, len(raw) <= self.max_length, 'strict loading accepts a string longer than max_length')
            self.require(ex, entities_wellformed(ex, raw), 'strict loading accepts a malformed entity / character reference')
        elif self.kind == 'pattern':
            if self.max_length is not None:
                self.require(ex, len(trimmed) <= self.max_length, 'strict loading accepts a pattern value longer than max_length')
            self.require(ex, UF.app('pattern_ok', trimmed, z3.BoolSort(), None), 'strict loading accepts a value its validator rejects')
            self.require(ex, bytes_eq(cdata_str_bytes(v), trimmed), 'pattern value is not the trimmed text')
        elif self.kind == 'uint':
            # digits only (an optional leading + is what str::parse accepts) and the value is the decimal reading
            t = trimmed
            if t and ex.decide(t[0] == 0x2b):
                t = t[1:]
            self.require(ex, len(t) > 0, 'strict loading accepts an empty number')
            if t:
                from models import is_digit
                self.require(ex, zand(*[is_digit(b) for b in t]), 'strict loading accepts a non-numeric unsigned integer')
                acc = bv(0, 128)
                for b in t:
                    acc = acc * 10 + z3.ZeroExt(120, b - 0x30)
                self.require(ex, z3.simplify(z3.ZeroExt(64, v.fields[0].e) == acc), 'unsigned integer value differs from the decimal reading of the text')
        elif self.kind == 'enum':
            item = v.fields[0].e
            inrow = [zand(item == r[0].e, (r[1].e & self.fv) != 0) for r in self.rows]
            # find() returns the FIRST row with that item: row1 only counts when row0 is a different item
            first = zor(inrow[0], zand(self.rows[0][0].e != item, inrow[1]))
            self.require(ex, first, 'strict loading accepts an enum item that is not listed for this element or not available in the file version')


# =====================================================================================================
# C02: parser value kernels are total: no panic on any byte string; error / warning lines within the document
# =====================================================================================================
@register
class C02ValueTotal(C08Value):
    ascii_only = False
    bound_is_hang = True
    native = ('data', 'n_c02_value_total')

    def run(self, ex):
        f_parse = find_fn(ex.prog, '::parse_character_data', 'parser.rs')
        if self.kind == 'enum':
            install_enum_models(ex.models)
        inp = self.inputs(ex)
        spec = self.make_spec(ex)
        p = self.parser(self.strict)
        if self.kind == 'enum':
            fv = z3.BitVec('fileversion', 32)
            ex.assume(z3.And(fv != 0, (fv & (fv - 1)) == 0, z3.ULT(fv, 1 << 21)))
            p.fields[P_FILEVERSION] = I(fv, False, 'u32')
        r = ex.call(f_parse, [Ref(Cell(p)), inp, Ref(Cell(spec))])
        return r, p

    def replay_vals(self, m):
        kindno = ['string', 'pattern', 'uint', 'float', 'enum'].index(self.kind)
        return ([le_bytes(self.n, 8)] + [[x] for x in model_bytes(m, self.bs)] + [[kindno], [1 if self.preserve else 0],
                le_bytes(self.max_length if self.max_length is not None else 0xffffffffffffffff, 8), [1 if self.strict else 0]])

    def prop(self, out, ex):
        if out[0] == 'panic':
            self.cover('panic')
            self.require(ex, False, 'panic while loading a value: ' + out[1])
            return
        r, p = out[1]
        if r.variant == 'Ok':
            self.cover('accepted')
        else:
            self.cover('rejected')
            l, _ = err_parts(r.fields[0])
            self.require(ex, self.line_ok(l), 'error names a line outside the document')
        for w in warnings_of(p):
            wl, _ = err_parts(w)
            self.require(ex, self.line_ok(wl), 'warning names a line outside the document')


# =====================================================================================================
# spec tables read from the repository source (names only): used by to_str models
# =====================================================================================================
_TABLES = {}


def string_table(fname):
    import os
    import re
    if fname not in _TABLES:
        src = open(os.path.join(REPO, 'autosar-data-specification', 'src', fname), encoding='utf-8').read()
        m = re.search(r'const STRING_TABLE: \[&\'static str; (\d+)\] = \[(.*?)\];', src, re.S)
        items = re.findall(r'"((?:[^"\\]|\\.)*)"', m.group(2))
        if len(items) != int(m.group(1)):
            raise Unsupported(f'{fname}: STRING_TABLE has {len(items)} entries, declared {m.group(1)}')
        _TABLES[fname] = [x.encode() for x in items]
    return _TABLES[fname]


def install_to_str_models(models):
    from mirexec import str_slice

    def mk(fname):
        def to_str(ex, c, a):
            v = ex.deref(a[0]) if isinstance(a[0], (Ref, ElemRef)) else a[0]
            idx = ex.concretize(v, limit=16)
            tab = string_table(fname)
            if idx >= len(tab):
                raise Unsupported('item index outside the table')
            return str_slice(tab[idx])
        return to_str
    models.add(r'^autosar_data_specification::EnumItem::to_str$', mk('enumitem.rs'), prefer=True)
    models.rx.insert(0, models.rx.pop())
    models.add(r'^autosar_data_specification::AttributeName::to_str$', mk('attributename.rs'), prefer=True)
    models.rx.insert(0, models.rx.pop())


# =====================================================================================================
# C14: the value ordering used by sort is a total order consistent with equality
# =====================================================================================================
@register
class C14ValueOrder(E2Harness):
    """a, b, c: CharacterData values of the given shapes: 'e' enum item (one of the first 3 items), 's<k>' string of k bytes,
    'u' any u64, 'f' any f64 bit pattern"""
    shapes = ['s1', 's1', 's1']
    native = ('data', 'n_c14_value_order')
    with_attr = False

    def mkval(self, ex, tag, shape):
        if shape == 'e':
            it = z3.BitVec(f'{tag}_item', 16)
            ex.assume(z3.ULT(it, 3))
            self.invars.append(('e', [it]))
            return Agg('CharacterData', 'Enum', [I(it, False, 'u16')])
        if shape.startswith('s'):
            k = int(shape[1:])
            bs = sym_bytes(f'{tag}_b', k)
            for b in bs:
                ex.assume(z3.ULT(b, 0x80))
            self.invars.append(('s', bs))
            return Agg('CharacterData', 'String', [Str(bs)])
        if shape == 'u':
            v = z3.BitVec(f'{tag}_u', 64)
            self.invars.append(('u', [v]))
            return Agg('CharacterData', 'UnsignedInteger', [I(v, False, 'u64')])
        if shape == 'f':
            bits = z3.BitVec(f'{tag}_fbits', 64)
            self.invars.append(('f', [bits]))
            return Agg('CharacterData', 'Float', [F(z3.fpBVToFP(bits, z3.Float64()))])
        raise Unsupported(shape)

    def run(self, ex):
        install_to_str_models(ex.models)
        f_cmp = find_fn(ex.prog, '::cmp', 'chardata.rs')
        self.invars = []
        vals = [self.mkval(ex, t, s) for t, s in zip('abc', self.shapes)]
        if self.with_attr:
            f_acmp = find_fn(ex.prog, '::cmp', 'lib.rs:563')
            names = []
            for t in 'abc':
                nm = z3.BitVec(f'{t}_attr', 16)
                ex.assume(z3.ULT(nm, 3))
                names.append(nm)
                self.invars.append(('n', [nm]))
            objs = [Agg('Attribute', None, [I(n_, False, 'u16'), v]) for n_, v in zip(names, vals)]
            cmpf = lambda x, y: ex.call(f_acmp, [Ref(Cell(x)), Ref(Cell(y))])
        else:
            objs = vals
            cmpf = lambda x, y: ex.call(f_cmp, [Ref(Cell(x)), Ref(Cell(y))])
        a, b, c = objs
        res = dict(ab=cmpf(a, b).variant, ba=cmpf(b, a).variant, bc=cmpf(b, c).variant, cb=cmpf(c, b).variant, ac=cmpf(a, c).variant, ca=cmpf(c, a).variant, aa=cmpf(a, a).variant)
        return res, vals, (names if self.with_attr else None)

    def replay_vals(self, m):
        out = [[1 if self.with_attr else 0]]
        for kind, terms in self.invars:
            vs = model_bytes(m, terms) if kind in ('s',) else None
            if kind == 'n':
                continue
            if kind == 'e':
                out += [[0], le_bytes(m.eval(terms[0], model_completion=True).as_long(), 2)]
            elif kind == 's':
                out += [[1], le_bytes(len(terms), 8)] + [[x] for x in vs]
            elif kind == 'u':
                out += [[2], le_bytes(m.eval(terms[0], model_completion=True).as_long(), 8)]
            elif kind == 'f':
                out += [[3], le_bytes(m.eval(terms[0], model_completion=True).as_long(), 8)]
        for kind, terms in self.invars:
            if kind == 'n':
                out += [le_bytes(m.eval(terms[0], model_completion=True).as_long(), 2)]
        return out

    def describe(self, m):
        parts = []
        for kind, terms in self.invars:
            if kind == 's':
                parts.append(repr(bytes(model_bytes(m, terms))))
            elif kind == 'f':
                import struct
                bits = m.eval(terms[0], model_completion=True).as_long()
                parts.append('f64:' + repr(struct.unpack('<d', struct.pack('<Q', bits))[0]))
            else:
                parts.append(f'{kind}:{m.eval(terms[0], model_completion=True).as_long()}')
        return ', '.join(parts)

    def nan_involved(self, vals):
        fl = [v.fields[0].e for v in vals if v.variant == 'Float']
        if not fl:
            return False
        return zor(*[z3.fpIsNaN(x) for x in fl])

    def prop(self, out, ex):
        if out[0] == 'panic':
            self.require(ex, False, 'comparison panicked: ' + out[1])
            return
        r, vals, names = out[1]
        self.cover('compared')
        msg = order_violation(r)
        okv = msg is None
        if okv:
            # Equal <=> identical values (the sort is a canonicalisation only if ties are real ties)
            same = cdata_equal(vals[0], vals[1], float_eq_rust=True)
            if names is not None:
                same = zand(same, names[0] == names[1])
            if r['ab'] == 'Equal':
                cond = same
                msg = 'cmp(a,b) == Equal for different values'
            else:
                cond = znot(same)
                msg = 'cmp(a,b) != Equal for identical values'
            nan = self.nan_involved(vals)
            self.require(ex, zor(nan, cond), msg)
            self.require(ex, zor(znot(nan), cond), msg + ' (NaN)', known_key='C14-float-nan-compares-equal')
            return
        nan = self.nan_involved(vals)
        self.require(ex, zb(nan), msg)        # without NaN this must not happen
        self.require(ex, znot(nan), msg + ' (NaN)', known_key='C14-float-nan-compares-equal')


# =====================================================================================================
# C19 (validators that build heap containers, out of CBMC's reach): validator MIR == reference DFA
# =====================================================================================================
@register
class C19Validator(E2Harness):
    fn = 'regex::validate_regex_15'
    n = 4
    dfa = None           # dict(cls=[256], trans=[[..]], accept=[..]) from tools/regex_dfa.py
    native = ('spec', 'n_c19_validator')
    part = None
    entry = 0
    exclude = ()
    fixed_prefix = None      # (byte value, count): the first `count` bytes are this byte (long inputs with a short symbolic tail)
    max_visits = 4096
    max_steps = 2000000

    def ref_accepts(self, bs):
        """reference automaton over symbolic bytes as one z3 term (no forking); the same term on every path"""
        if getattr(self, '_ref', None) is None:
            self._ref = self._ref_accepts(bs)
        return self._ref

    def _ref_accepts(self, bs):
        d = self.dfa
        ncls = len(d['trans'][0])
        nst = len(d['trans'])
        # class of a byte: ite chain over the 256-entry class table, compressed into ranges
        def cls_of(b):
            ranges = []
            start = 0
            for v in range(1, 257):
                if v == 256 or d['cls'][v] != d['cls'][start]:
                    ranges.append((start, v - 1, d['cls'][start]))
                    start = v
            e = z3.IntVal(ranges[-1][2])
            for lo, hi, c in reversed(ranges[:-1]):
                e = z3.If(z3.ULE(b, hi), z3.IntVal(c), e)
            return e
        st = z3.IntVal(0)
        for b in bs:
            c = cls_of(b)
            nxt = z3.IntVal(d['dead'] if d.get('dead') is not None else 0)
            for s in range(nst):
                for k in range(ncls):
                    t = d['trans'][s][k]
                    if t == d.get('dead'):
                        continue
                    nxt = z3.If(z3.And(st == s, c == k), z3.IntVal(t), nxt)
            st = z3.simplify(nxt)
        acc = [s for s in range(nst) if d['accept'][s]]
        return z3.simplify(z3.Or(*[st == s for s in acc])) if acc else z3.BoolVal(False)

    def run(self, ex):
        self.bs = sym_bytes('b', self.n)
        if self.part is not None:
            i, k = self.part
            if self.n == 0:
                if i != 0:
                    raise Infeasible()
            else:
                ex.assume(z3.URem(self.bs[0], k) == i)
        if self.fixed_prefix is not None:
            v, cnt = self.fixed_prefix
            self.bs = [bv(v, 8)] * min(cnt, self.n) + self.bs[min(cnt, self.n):]
        for x in self.exclude:
            for b in self.bs:
                if not z3.is_bv_value(b):
                    ex.assume(b != x)
        r = ex.call(self.fn, [Slice(self.bs, 0, self.n, False)])
        return r

    def replay_vals(self, m):
        return [le_bytes(self.entry, 8), le_bytes(self.n, 8)] + [[x] for x in model_bytes(m, self.bs)]

    def describe(self, m):
        return repr(bytes(model_bytes(m, self.bs)))

    def ref_accepts_fork(self, ex, bs):
        """reference automaton run by forking on the byte class of each position (for long inputs: states stay concrete)"""
        d = self.dfa
        members = {}
        for v in range(256):
            members.setdefault(d['cls'][v], []).append(v)

        def in_cls(b, k):
            rs = []
            start = prev = None
            for v in members.get(k, []):
                if start is None:
                    start = prev = v
                elif v == prev + 1:
                    prev = v
                else:
                    rs.append((start, prev))
                    start = prev = v
            if start is not None:
                rs.append((start, prev))
            return zor(*[z3.And(z3.UGE(b, lo), z3.ULE(b, hi)) for lo, hi in rs]) if rs else False
        st = 0
        ks = sorted(members)
        for b in bs:
            nxt = None
            for k in ks[:-1]:
                if ex.decide(in_cls(b, k)):
                    nxt = d['trans'][st][k]
                    break
            if nxt is None:
                nxt = d['trans'][st][ks[-1]]
            st = nxt
            if st == d.get('dead'):
                return False
        return bool(d['accept'][st])

    def prop(self, out, ex):
        if out[0] == 'panic':
            self.require(ex, False, 'validator panicked: ' + out[1])
            return
        got = out[1]
        if self.n > 40:
            if not isinstance(got, bool):
                got = ex.decide(got)
            want = self.ref_accepts_fork(ex, self.bs)
            self.cover('accepts' if got else 'rejects')
            self.require(ex, got == want, 'validator and published regex disagree')
            return
        want = self.ref_accepts(self.bs)
        if isinstance(got, bool):
            self.cover('accepts' if got else 'rejects')
            self.require(ex, want if got else z3.Not(want), 'validator and published regex disagree')
        else:
            self.cover('symbolic verdict')
            self.require(ex, got == want, 'validator and published regex disagree')


# =====================================================================================================
# C20: numeric interpretation of text is exact
# =====================================================================================================
def install_generic_T(models, ty):
    """bind the type parameter T of the generic MIR body (num_traits' impls for the primitive integers forward to the
    inherent from_str_radix; TryFrom<u64> is the range check)"""
    from models import from_str_radix as fsr

    def t_from_str_radix(ex, c, a):
        return fsr(ex, as_bytes_list(ex, a[0]), ex.concretize(a[1]), ty)

    def t_try_from(ex, c, a):
        bits, signed = INT_TYPES_[ty]
        v = a[0]
        lim = (1 << (bits - 1)) - 1 if signed else (1 << bits) - 1
        if bits >= 64 and not signed:
            return ok(I(v.e, False, ty))
        if ex.decide(z3.UGT(v.e, bv(lim, 64))):
            return err(Opaque('TryFromIntError'))
        return ok(I(z3.simplify(z3.Extract(bits - 1, 0, v.e)), signed, ty))
    models.add(r'^<T as Num>::from_str_radix$', t_from_str_radix, prefer=True)
    models.rx.insert(0, models.rx.pop())
    models.add(r'^<T as TryFrom<u64>>::try_from$', t_try_from, prefer=True)
    models.rx.insert(0, models.rx.pop())


from mirexec import INT_TYPES as INT_TYPES_


def ref_integer_form(ex, bs):
    """independent reading of the AUTOSAR integer forms  0 | [+-]?[1-9][0-9]* | 0[xX][0-9a-fA-F]+ | 0[bB][01]+ | 0[0-7]+
    returns None (not of these forms) or (negative: bool, magnitude: z3 bit-vector of W bits), forking on the shape"""
    from models import is_digit, is_hexdigit, digit_value
    n = len(bs)
    W = 8 + 4 * n + 64
    if n == 0:
        return None

    def accumulate(ds, radix):
        acc = bv(0, W)
        shift = {2: 1, 8: 3, 16: 4}.get(radix)
        for b in ds:
            _, dv = digit_value(b, radix)
            acc = ((acc << shift) | z3.ZeroExt(W - 8, dv)) if shift else (acc * radix + z3.ZeroExt(W - 8, dv))
        ref_integer_form.biggest = radix ** len(ds) - 1
        return z3.simplify(acc)
    if ex.decide(bs[0] == 0x30):
        if n == 1:
            return (False, bv(0, W))
        if ex.decide(z3.Or(bs[1] == 0x78, bs[1] == 0x58)):
            ds = bs[2:]
            if not ds or not all(ex.decide(is_hexdigit(b)) for b in ds):
                return None
            return (False, accumulate(ds, 16))
        if ex.decide(z3.Or(bs[1] == 0x62, bs[1] == 0x42)):
            ds = bs[2:]
            if not ds or not all(ex.decide(z3.Or(b == 0x30, b == 0x31)) for b in ds):
                return None
            return (False, accumulate(ds, 2))
        ds = bs[1:]
        if not all(ex.decide(z3.And(z3.UGE(b, 0x30), z3.ULE(b, 0x37))) for b in ds):
            return None
        return (False, accumulate(ds, 8))
    neg = False
    ds = bs
    if ex.decide(bs[0] == 0x2d):
        neg = True
        ds = bs[1:]
    elif ex.decide(bs[0] == 0x2b):
        ds = bs[1:]
    if not ds:
        return None
    if not ex.decide(z3.And(z3.UGE(ds[0], 0x31), z3.ULE(ds[0], 0x39))):
        return None
    if not all(ex.decide(is_digit(b)) for b in ds[1:]):
        return None
    return (neg, accumulate(ds, 10))


@register
class C20Integer(ParserHarness):
    ty = 'u8'
    first = None         # fix the first byte (e.g. 0x30: only the radix-prefixed / octal forms, which are cheap for long texts)
    native = ('data', 'n_c20_integer')

    def run(self, ex):
        ex.tbind = [self.ty]
        f = find_fn(ex.prog, '::parse_integer', 'chardata.rs')
        self.bs = sym_bytes('b', self.n)
        for b in self.bs:
            ex.assume(z3.ULT(b, 0x80))
        if self.first is not None and self.n > 0:
            ex.assume(self.bs[0] == self.first)
        if self.part is not None:
            i, k = self.part
            if self.n == 0:
                if i != 0:
                    raise Infeasible()
            else:
                ex.assume(z3.URem(self.bs[0], k) == i)
        v = cdata_string(list(self.bs))
        r = ex.call(f, [Ref(Cell(v))])
        return r

    def replay_vals(self, m):
        tys = ['u8', 'i8', 'u16', 'i16', 'u32', 'i32', 'u64', 'i64']
        return [[tys.index(self.ty)], le_bytes(self.n, 8)] + [[x] for x in model_bytes(m, self.bs)]

    def prop(self, out, ex):
        if out[0] == 'panic':
            self.require(ex, False, 'parse_integer panicked: ' + out[1])
            return
        r = out[1]
        form = ref_integer_form(ex, list(self.bs))
        if form is None:
            self.cover('not an AUTOSAR integer text')
            return
        neg, mag = form
        W = mag.size()
        bits, signed = INT_TYPES_[self.ty]
        big = getattr(ref_integer_form, 'biggest', None)
        if neg:
            # a negative text has a non-zero first digit, so its magnitude is >= 1: never fits an unsigned type
            fits = z3.ULE(mag, bv(1 << (bits - 1), W)) if signed else z3.BoolVal(False)
            if signed and big is not None and big <= (1 << (bits - 1)):
                fits = z3.BoolVal(True)
        else:
            lim = (1 << (bits - 1)) - 1 if signed else (1 << bits) - 1
            fits = z3.ULE(mag, bv(lim, W))
            if big is not None and big <= lim:
                fits = z3.BoolVal(True)       # that many digits cannot exceed the type: plain arithmetic, no solver
        if r.variant == 'Some':
            self.cover('number returned')
            got = r.fields[0].e
            val = z3.Extract(bits - 1, 0, mag)
            if neg:
                val = -val
            self.require(ex, fits, 'parse_integer returns a number for a text whose value does not fit the requested type')
            self.require(ex, z3.Or(z3.Not(fits), got == val), 'parse_integer returns a different number than the text denotes')
        else:
            self.cover('nothing returned')
            self.require(ex, z3.Not(fits), 'parse_integer returns nothing for a text whose value fits the requested type')


@register
class C20Bool(ParserHarness):
    native = ('data', 'n_c20_bool')

    def run(self, ex):
        f = find_fn(ex.prog, '::parse_bool', 'chardata.rs')
        self.bs = sym_bytes('b', self.n)
        for b in self.bs:
            ex.assume(z3.ULT(b, 0x80))
        return ex.call(f, [Ref(Cell(cdata_string(list(self.bs))))])

    def replay_vals(self, m):
        return [le_bytes(self.n, 8)] + [[x] for x in model_bytes(m, self.bs)]

    def prop(self, out, ex):
        if out[0] == 'panic':
            self.require(ex, False, 'parse_bool panicked: ' + out[1])
            return
        r = out[1]
        eqs = lambda lit: bytes_eq(list(self.bs), [bv(c, 8) for c in lit]) if len(lit) == self.n else False
        t = zor(eqs(b'true'), eqs(b'1'))
        f = zor(eqs(b'false'), eqs(b'0'))
        if r.variant == 'Some':
            v = r.fields[0]
            self.cover('boolean returned')
            self.require(ex, t if (v is True or (not isinstance(v, bool) and z3.is_true(z3.simplify(v)))) else f, 'parse_bool returns the wrong truth value')
        else:
            self.cover('nothing returned')
            self.require(ex, znot(zor(t, f)), 'parse_bool returns nothing for a boolean text')


@register
class C20FloatRadix(ParserHarness):
    """parse_float: radix-prefixed texts are the integer's value converted to f64; other texts go to str::parse::<f64> unchanged"""
    native = ('data', 'n_c20_float_radix')

    def run(self, ex):
        f = find_fn(ex.prog, '::parse_float', 'chardata.rs')
        self.bs = sym_bytes('b', self.n)
        for b in self.bs:
            ex.assume(z3.ULT(b, 0x80))
        if self.part is not None:
            i, k = self.part
            if self.n == 0:
                if i != 0:
                    raise Infeasible()
            else:
                ex.assume(z3.URem(self.bs[0], k) == i)
        return ex.call(f, [Ref(Cell(cdata_string(list(self.bs))))])

    def replay_vals(self, m):
        return [le_bytes(self.n, 8)] + [[x] for x in model_bytes(m, self.bs)]

    def prop(self, out, ex):
        if out[0] == 'panic':
            self.require(ex, False, 'parse_float panicked: ' + out[1])
            return
        r = out[1]
        bs = list(self.bs)
        form = ref_integer_form(ex, bs)
        radix_form = form is not None and len(bs) >= 2 and not form[0] and z3.is_true(z3.simplify(bs[0] == 0x30)) is False
        # only hex / binary / octal / "0" texts are judged against the integer reading (decimal texts are std's dec2flt)
        if form is None:
            self.cover('not an integer text')
            return
        first_zero = ex.decide(bs[0] == 0x30)
        if not first_zero:
            self.cover('decimal text (std float parsing, outside the claim)')
            return
        neg, mag = form
        W = mag.size()
        fits = z3.ULE(mag, bv((1 << 64) - 1, W))
        if r.variant == 'Some':
            self.cover('radix text -> number')
            want = z3.fpUnsignedToFP(z3.RNE(), z3.Extract(63, 0, mag), z3.Float64())
            self.require(ex, z3.Or(z3.Not(fits), r.fields[0].e == want), 'parse_float returns a different number than the radix-prefixed text denotes')
        else:
            self.cover('radix text -> nothing')
            self.require(ex, z3.Not(fits), 'parse_float returns nothing for a radix-prefixed text that fits 64 bits')


# =====================================================================================================
# C17: value-level version compatibility is exact
# =====================================================================================================
def install_enum_table_models(models):
    """EnumItem::to_str / from_str / from_bytes on the real name table (items concrete on every path)"""
    install_to_str_models(models)
    tab = string_table('enumitem.rs')
    lookup = {t: i for i, t in enumerate(tab)}

    def from_bytes(ex, c, a):
        bs = as_bytes_list(ex, a[0])
        vals = [z3.simplify(x) for x in bs]
        if not all(z3.is_bv_value(v) for v in vals):
            raise Unsupported('EnumItem lookup on symbolic text')
        key = bytes(v.as_long() for v in vals)
        if key in lookup:
            return ok(I(bv(lookup[key], 16), False, 'u16'))
        return err(Opaque('ParseEnumItemError'))
    for pat in (r'^autosar_data_specification::EnumItem::from_bytes$', r'^<autosar_data_specification::EnumItem as FromStr>::from_str$'):
        models.add(pat, from_bytes, prefer=True)
        models.rx.insert(0, models.rx.pop())
    # AutosarVersion::compatible(mask) <=> mask has the version's bit (decided on the compiled function by h_version_filename_roundtrip)
    models.add(r'^autosar_data_specification::<impl autosar_data_specification::AutosarVersion>::compatible$',
               lambda ex, c, a: z3.simplify((a[1].e & ex.deref(a[0]).e) != 0), prefer=True)
    models.rx.insert(0, models.rx.pop())


@register
class C17Value(E2Harness):
    kind = 'enum'
    native = ('data', 'n_c17_value')

    def run(self, ex):
        install_enum_table_models(ex.models)
        f_cvc = find_fn(ex.prog, '::check_version_compatibility', 'chardata.rs')
        f_cv = find_fn(ex.prog, '::check_value', 'chardata.rs')
        f_parse = find_fn(ex.prog, '::parse', 'chardata.rs:7:1')
        f_ser = find_fn(ex.prog, '::serialize_internal', 'chardata.rs')
        self.ver = z3.BitVec('target_bit', 32)
        ex.assume(z3.And(self.ver != 0, (self.ver & (self.ver - 1)) == 0, z3.ULT(self.ver, 1 << 21)))
        ver = I(self.ver, False, 'u32')
        self.vars = []
        if self.kind == 'enum':
            rows = []
            for i in range(2):
                it = z3.BitVec(f'row{i}_item', 16)
                mk = z3.BitVec(f'row{i}_mask', 32)
                ex.assume(z3.ULT(it, 3))
                rows.append((I(it, False, 'u16'), I(mk, False, 'u32')))
                self.vars += [it, mk]
            self.rows = rows
            spec = spec_enum(rows)
            vi = z3.BitVec('value_item', 16)
            ex.assume(z3.ULT(vi, 3))
            self.vars.append(vi)
            self.vi = vi
            value = Agg('CharacterData', 'Enum', [I(vi, False, 'u16')])
        elif self.kind == 'uint':
            spec = spec_uint()
            u = z3.BitVec('value_u', 64)
            ex.assume(z3.ULT(u, 1000))
            self.vars.append(u)
            value = Agg('CharacterData', 'UnsignedInteger', [I(u, False, 'u64')])
        else:
            spec = spec_string(False, 3)
            bs = sym_bytes('s', 2)
            for b in bs:
                ex.assume(z3.And(z3.UGE(b, 0x61), z3.ULE(b, 0x7a)))
            self.vars += bs
            value = cdata_string(bs)
        sref = Ref(Cell(spec))
        r = ex.call(f_cvc, [Ref(Cell(value)), sref, ver])
        cv = ex.call(f_cv, [Ref(Cell(value)), sref, ver])
        if self.kind == 'enum':
            txt = Str()
            ex.call(f_ser, [Ref(Cell(value)), Ref(Cell(txt))])
            p = ex.call(f_parse, [Slice(list(txt.b), 0, len(txt.b), True), sref, ver])
        else:
            p = None
        return r, cv, p

    def replay_vals(self, m):
        k = ['enum', 'uint', 'string'].index(self.kind)
        out = [[k], le_bytes(m.eval(self.ver, model_completion=True).as_long(), 4)]
        for v in self.vars:
            out.append(le_bytes(m.eval(v, model_completion=True).as_long(), v.size() // 8))
        return out

    def describe(self, m):
        return ', '.join(f'{v}={m.eval(v, model_completion=True)}' for v in [self.ver] + self.vars)

    def prop(self, out, ex):
        if out[0] == 'panic':
            self.require(ex, False, 'panicked: ' + out[1])
            return
        r, cv, p = out[1]
        okc, mask = r.fields[0], r.fields[1]
        okb = okc if isinstance(okc, bool) else None
        self.cover('compatible' if okc is True else 'incompatible')
        cvb = zb(cv)
        self.require(ex, zb(okc) == cvb, 'check_version_compatibility and check_value disagree for the target version')
        if p is not None:
            self.require(ex, zb(okc) == zb(p.variant == 'Some'), 'check_version_compatibility disagrees with re-validating the value text for the target version')
        self.require(ex, zb(okc) == ((mask.e & self.ver) != 0), 'returned version mask does not contain the target version exactly when the value is compatible')
        if self.kind == 'enum':
            # independent reading: first row listing the item decides (find() semantics of the loader's table lookup)
            in0 = zand(self.rows[0][0].e == self.vi, (self.rows[0][1].e & self.ver) != 0)
            in1 = zand(self.rows[0][0].e != self.vi, self.rows[1][0].e == self.vi, (self.rows[1][1].e & self.ver) != 0)
            self.require(ex, zb(okc) == zor(in0, in1), 'compatibility verdict differs from the item table (item listed with a mask containing the target version)')
        else:
            self.require(ex, zb(okc), 'a value without version restrictions is reported incompatible')


# =====================================================================================================
# C18: the perfect-hash name lookups (hashfunc + from_bytes MIR of the specification crate)
# =====================================================================================================
TABLES = {'attr': ('attributename.rs', 'attributename::AttributeName', 'AttributeName'),
          'enum': ('enumitem.rs', 'enumitem::EnumItem', 'EnumItem'),
          'elem': ('elementname.rs', 'elementname::ElementName', 'ElementName')}


def install_spec_consts(ex):
    """associated constants the MIR names but does not print: read from the specification crate's source"""
    import os
    import re
    from mirexec import str_slice
    if 'hashfunc::HASHCONST1' in ex.models.consts:
        return
    src = open(os.path.join(REPO, 'autosar-data-specification', 'src', 'lib.rs'), encoding='utf-8').read()
    for m in re.finditer(r'const (HASHCONST\d): u32 = (0x[0-9A-Fa-f_]+);', src):
        ex.models.consts[f'hashfunc::{m.group(1)}'] = mk_int(int(m.group(2).replace('_', ''), 16), 'u32')
    for key, (fname, path, ty) in TABLES.items():
        tab = string_table(fname)
        ex.models.consts[f'{path}::STRING_TABLE'] = Agg('array', None, [str_slice(t) for t in tab])


@register
class C18Names(E2Harness):
    table = 'attr'
    mode = 'complete'      # complete: symbolic item index -> from_bytes(to_str(i)) == Ok(i) ; sound: symbolic text of length n
    n = 2
    part = None
    native = ('spec', 'n_c18_names')
    max_visits = 100000
    max_steps = 5000000
    bad_item = 0

    def run(self, ex):
        install_spec_consts(ex)
        fname, path, ty = TABLES[self.table]
        f = [x for x in ex.prog.raw if x.endswith('::from_bytes') and fname in x]
        if len(f) != 1:
            raise Unsupported(f'from_bytes of {fname}: {len(f)} candidates')
        tab = string_table(fname)
        if self.mode == 'complete':
            # finite domain: every item of the table (of this partition) is looked up on the MIR; all data are concrete here,
            # so the executor decides each lookup without a solver query (exhaustive enumeration, stated as such in the evidence)
            res = []
            lo, step = (self.part if self.part is not None else (0, 1))
            for i in range(lo, len(tab), step):
                text = tab[i]
                r = ex.call(f[0], [Slice([bv(c, 8) for c in text], 0, len(text), False)])
                res.append((i, r))
            return ('complete', res, None)
        self.bs = sym_bytes('b', self.n)
        if self.part is not None and self.n > 0:
            ex.assume(z3.URem(self.bs[0], self.part[1]) == self.part[0])
        r = ex.call(f[0], [Slice(self.bs, 0, self.n, False)])
        return ('sound', None, r)

    def replay_vals(self, m):
        t = ['attr', 'enum', 'elem'].index(self.table)
        if self.mode == 'complete':
            return [[t], [0], le_bytes(self.bad_item, 2)]
        return [[t], [1], le_bytes(self.n, 8)] + [[x] for x in model_bytes(m, self.bs)]

    def describe(self, m):
        if self.mode == 'complete':
            return f'item {self.bad_item}'
        return repr(bytes(model_bytes(m, self.bs)))

    def prop(self, out, ex):
        if out[0] == 'panic':
            self.require(ex, False, 'from_bytes panicked: ' + out[1])
            return
        kind, i, r = out[1]
        tab = string_table(TABLES[self.table][0])
        if kind == 'complete':
            for idx, rr in i:
                self.cover('item looked up')
                self.bad_item = idx
                if rr.variant != 'Ok':
                    self.require(ex, False, f'the text of item {idx} ({tab[idx].decode()}) is not accepted by from_bytes')
                elif rr.fields[0].conc() != idx:
                    self.require(ex, False, f'text -> item returns a different item for item {idx} ({tab[idx].decode()})')
            return
        if r.variant == 'Ok':
            self.cover('text accepted')
            x = r.fields[0]
            c = x.conc()
            if c is None:
                c = ex.concretize(x, limit=64)
            self.require(ex, c < len(tab), 'from_bytes returned an item outside the table')
            if c < len(tab):
                self.require(ex, bytes_eq(list(self.bs), [bv(ch, 8) for ch in tab[c]]), 'from_bytes accepted a text that is not the item\'s text')
        else:
            self.cover('text rejected')
            # a rejected text must not be the text of any item (items of this length)
            same = [bytes_eq(list(self.bs), [bv(ch, 8) for ch in t]) for t in tab if len(t) == self.n]
            if same:
                self.require(ex, znot(zor(*same)), 'from_bytes rejected the text of an item')


@register
class C20FloatSpecial(E2Harness):
    """format -> parse for the non-finite floats (NaN, +inf, -inf): serialize_internal then parse_float returns an equal value"""
    native = ('data', 'n_c20_float_special')

    def run(self, ex):
        f_ser = find_fn(ex.prog, '::serialize_internal', 'chardata.rs')
        f_pf = find_fn(ex.prog, '::parse_float', 'chardata.rs')
        self.bits = z3.BitVec('fbits', 64)
        v = z3.fpBVToFP(self.bits, z3.Float64())
        ex.assume(z3.Or(z3.fpIsNaN(v), z3.fpIsInf(v)))
        out = Str()
        ex.call(f_ser, [Ref(Cell(Agg('CharacterData', 'Float', [F(v)]))), Ref(Cell(out))])
        r = ex.call(f_pf, [Ref(Cell(cdata_string(list(out.b))))])
        return v, out, r

    def replay_vals(self, m):
        return [le_bytes(m.eval(self.bits, model_completion=True).as_long(), 8)]

    def describe(self, m):
        return 'f64 bits %016x' % m.eval(self.bits, model_completion=True).as_long()

    def prop(self, out, ex):
        if out[0] == 'panic':
            self.require(ex, False, 'panicked: ' + out[1])
            return
        v, txt, r = out[1]
        self.cover('non-finite value formatted')
        if r.variant != 'Some':
            self.require(ex, False, 'the text written for a float is not read back as a number')
            return
        g = r.fields[0].e
        same = z3.Or(z3.And(z3.fpIsNaN(v), z3.fpIsNaN(g)), z3.fpEQ(v, g))
        self.require(ex, same, 'format -> parse of a non-finite float returns a different value')


# =====================================================================================================
# parse_attribute_text: splitting of the attribute text of a start tag, lookup, value parsing, required attributes
# =====================================================================================================
def install_attr_models(models, rows):
    """rows: [(name I u16, spec Ref, required bool/z3 Bool, mask I u32)]: the attribute table of the element type the harness
    parses for. AttributeName::from_bytes is an arbitrary deterministic lookup (uninterpreted)."""
    def from_bytes(ex, c, a):
        bs = as_bytes_list(ex, a[0])
        if ex.decide(UF.app('attrname_known', bs, z3.BoolSort(), None)):
            return ok(I(UF.app('attrname_of', bs, z3.BitVecSort(16), None), False, 'u16'))
        return err(Opaque('ParseAttributeNameError'))

    def find_attribute_spec(ex, c, a):
        name = a[1]
        for nm, spec, req, mask in rows:
            if ex.decide(name.e == nm.e):
                return some(Agg('AttributeSpec', None, [spec, req, mask]))
        return NONE()

    def spec_iter(ex, c, a):
        items = [Agg('tuple', None, [nm, spec, req]) for nm, spec, req, mask in rows]
        from mirexec import Iter
        return Iter('attrdefs', Slice(items, 0, len(items), False), 0)

    def spec_iter_next(ex, c, a):
        it = ex.deref(a[0])
        if it.pos >= it.slice.len:
            return NONE()
        v = it.slice.buf[it.pos]
        it.pos += 1
        return some(v)
    for pat, fn in ((r'^autosar_data_specification::AttributeName::from_bytes$', from_bytes),
                    (r'^autosar_data_specification::ElementType::find_attribute_spec$', find_attribute_spec),
                    (r'^autosar_data_specification::ElementType::attribute_spec_iter$', spec_iter),
                    (r'^<AttrDefinitionsIter as Iterator>::next$', spec_iter_next),
                    (r'^<autosar_data_specification::AttributeName as ToString>::to_string$', lambda ex, c, a: Str([]))):
        models.add(pat, fn, prefer=True)
        models.rx.insert(0, models.rx.pop())


@register
class AttrText(ParserHarness):
    """strict and lenient parse_attribute_text on the same symbolic attribute text, for an element type with two attributes
    (a string-typed one and an unsigned-integer one) whose names, `required` flags and version masks are symbolic"""
    native = ('data', 'n_attr_text')
    ascii_only = True
    mode = 'relational'      # relational (C08) | total (C02: one run, any bytes)

    def run(self, ex):
        f = find_fn(ex.prog, '::parse_attribute_text', 'parser.rs')
        inp = self.inputs(ex)
        self.names = [z3.BitVec('attr_a', 16), z3.BitVec('attr_b', 16)]
        ex.assume(self.names[0] != self.names[1])
        self.req = [z3.Bool('req_a'), z3.Bool('req_b')]
        self.masks = [z3.BitVec('mask_a', 32), z3.BitVec('mask_b', 32)]
        self.fv = z3.BitVec('fileversion', 32)
        ex.assume(z3.And(self.fv != 0, (self.fv & (self.fv - 1)) == 0, z3.ULT(self.fv, 1 << 21)))
        specs = [Ref(Cell(spec_string(False, None))), Ref(Cell(spec_uint()))]
        rows = [(I(self.names[i], False, 'u16'), specs[i], self.req[i], I(self.masks[i], False, 'u32')) for i in range(2)]
        install_attr_models(ex.models, rows)
        et = Agg('ElementType', None, [mk_int(0, 'u16'), mk_int(0, 'u16')])
        outs = []
        for strict in ((True, False) if self.mode == 'relational' else (self.strict,)):
            p = self.parser(strict)
            p.fields[P_FILEVERSION] = I(self.fv, False, 'u32')
            r = ex.call(f, [Ref(Cell(p)), et, inp])
            outs.append((r, p))
        return outs

    def replay_vals(self, m):
        return ([le_bytes(self.n, 8)] + [[x] for x in model_bytes(m, self.bs)] +
                [[1 if self.mode == 'relational' else 0], [1 if self.strict else 0]])

    def attrs_of(self, r):
        return r.fields[0].items

    def prop(self, out, ex):
        if out[0] == 'panic':
            self.cover('panic')
            self.require(ex, False, 'panic while parsing attribute text: ' + out[1])
            return
        outs = out[1]
        for r, p in outs:
            if r.variant == 'Err':
                l, _ = err_parts(r.fields[0])
                self.require(ex, self.line_ok(l), 'error names a line outside the document')
            for w in warnings_of(p):
                wl, _ = err_parts(w)
                self.require(ex, self.line_ok(wl), 'warning names a line outside the document')
        if self.mode != 'relational':
            self.cover('parsed')
            return
        (rs, ps), (rl, pl) = outs
        wl = warnings_of(pl)
        if rs.variant == 'Ok':
            self.cover('strict accepts')
            self.require(ex, rl.variant == 'Ok', 'strict accepts attribute text that lenient rejects')
            self.require(ex, len(wl) == 0, 'lenient warns about attribute text that strict accepts')
            a_s = self.attrs_of(rs)
            if rl.variant == 'Ok':
                a_l = self.attrs_of(rl)
                self.require(ex, len(a_s) == len(a_l), 'strict and lenient produce a different number of attributes')
                if len(a_s) == len(a_l):
                    for x, y in zip(a_s, a_l):
                        self.require(ex, zand(x.fields[0].e == y.fields[0].e, cdata_equal(x.fields[1], y.fields[1])), 'strict and lenient produce different attributes')
            # no holes: required attributes present; every attribute listed for the type and available in the file version
            for i in range(2):
                present = zor(*[a.fields[0].e == self.names[i] for a in a_s]) if a_s else False
                self.require(ex, zor(znot(self.req[i]), present), 'strict loading accepts an element without a required attribute')
            for a in a_s:
                listed = zor(*[zand(a.fields[0].e == self.names[i], (self.masks[i] & self.fv) != 0) for i in range(2)])
                self.require(ex, listed, 'strict loading accepts an attribute that is unknown for the element or not available in the file version')
        else:
            self.cover('strict rejects')
            _, ssrc = err_parts(rs.fields[0])
            if rl.variant == 'Ok':
                self.require(ex, len(wl) > 0, 'lenient silently accepts attribute text that strict rejects')
                if wl:
                    _, wsrc = err_parts(wl[0])
                    self.require(ex, wsrc.variant == ssrc.variant, f'strict error ({ssrc.variant}) is not the first lenient warning ({wsrc.variant})')
            else:
                self.cover('both reject')


# =====================================================================================================
# C14: the element comparison sort is built on (item names, incl. the numeric-suffix rule)
# =====================================================================================================
def name_index(fname, text):
    return string_table(fname).index(text)


def install_element_models(models):
    """ElementType queries of the specification crate for the two element types the harness builds:
    type id 1 = named container (content mode Elements), type id 2 = SHORT-NAME (content mode Characters)"""
    install_to_str_models(models)
    tab = string_table('elementname.rs')

    def elem_to_str(ex, c, a):
        from mirexec import str_slice
        v = ex.deref(a[0]) if isinstance(a[0], (Ref, ElemRef)) else a[0]
        return str_slice(tab[ex.concretize(v, limit=8)])

    def content_mode(ex, c, a):
        t = ex.deref(a[0]) if isinstance(a[0], (Ref, ElemRef)) else a[0]
        return Agg('ContentMode', 'Characters' if t.fields[1].conc() == 2 else 'Sequence', [])

    def is_named(ex, c, a):
        t = ex.deref(a[0]) if isinstance(a[0], (Ref, ElemRef)) else a[0]
        return t.fields[1].conc() == 1
    for pat, fn in ((r'^autosar_data_specification::ElementName::to_str$', elem_to_str),
                    (r'^autosar_data_specification::ElementType::content_mode$', content_mode),
                    (r'^autosar_data_specification::ElementType::is_named$', is_named)):
        models.add(pat, fn, prefer=True)
        models.rx.insert(0, models.rx.pop())
    for variant, text in (('Index', b'INDEX'), ('ShortName', b'SHORT-NAME'), ('DefinitionRef', b'DEFINITION-REF'), ('ArPackage', b'AR-PACKAGE')):
        v = mk_int(name_index('elementname.rs', text), 'u16')
        models.consts[f'autosar_data_specification::ElementName::{variant}'] = v
        models.consts[f'ElementName::{variant}'] = v
    d = mk_int(name_index('attributename.rs', b'DEST'), 'u16')
    models.consts['autosar_data_specification::AttributeName::Dest'] = d
    models.consts['AttributeName::Dest'] = d


def mk_element(elemname_idx, typ, content, attributes=()):
    raw = Agg('ElementRaw', None, [Agg('ElementOrModel', 'None', []), mk_int(elemname_idx, 'u16'),
                                   Agg('ElementType', None, [mk_int(0, 'u16'), mk_int(typ, 'u16')]),
                                   VecV(list(content), ty='SmallVec'), VecV(list(attributes), ty='SmallVec'), Opaque('HashSet'), NONE()])
    lock = Agg('RwLock', None, [raw])
    return Agg('Element', None, [Agg('Arc', None, [Ref(Cell(lock))])])


@register
class C14ElementOrder(E2Harness):
    """three sibling elements of the same kind that differ only in their item name (SHORT-NAME text): the real
    `impl Ord for Element` (with item_name, decompose_item_name, get_sub_element, character_data ...) must order them consistently"""
    lens = [2, 3, 4]
    native = ('data', 'n_c14_element_order')
    max_visits = 256
    max_steps = 200000

    def run(self, ex):
        install_element_models(ex.models)
        ex.tbind = ['u64']
        f_cmp = find_fn(ex.prog, '::cmp', 'element.rs:2240') if any('element.rs:2240' in n for n in ex.prog.raw) else None
        if f_cmp is None:
            cands = [n for n in ex.prog.raw if n.endswith('::cmp') and 'element.rs' in n and 'closure' not in n]
            if len(cands) != 1:
                raise Unsupported(f'impl Ord for Element: {len(cands)} candidates')
            f_cmp = cands[0]
        sn = name_index('elementname.rs', b'SHORT-NAME')
        pk = name_index('elementname.rs', b'AR-PACKAGE')
        from models import is_alpha, is_digit
        self.names = []
        elems = []
        for t, k in zip('abc', self.lens):
            bs = sym_bytes(f'{t}_n', k)
            # valid item names: a letter, then letters / digits / underscore (what the editing API and the loader accept)
            ex.assume(is_alpha(bs[0]))
            for b in bs[1:]:
                ex.assume(z3.Or(is_alpha(b), is_digit(b), b == 0x5f))
            self.names.append(bs)
            short = mk_element(sn, 2, [Agg('ElementContent', 'CharacterData', [cdata_string(list(bs))])])
            elems.append(mk_element(pk, 1, [Agg('ElementContent', 'Element', [short])]))
        a, b, c = elems
        cmpf = lambda x, y: ex.call(f_cmp, [Ref(Cell(x)), Ref(Cell(y))])
        return dict(ab=cmpf(a, b).variant, ba=cmpf(b, a).variant, bc=cmpf(b, c).variant, cb=cmpf(c, b).variant, ac=cmpf(a, c).variant, ca=cmpf(c, a).variant, aa=cmpf(a, a).variant)

    def replay_vals(self, m):
        out = []
        for bs in self.names:
            out += [le_bytes(len(bs), 8)] + [[x] for x in model_bytes(m, bs)]
        return out

    def describe(self, m):
        return ', '.join(repr(bytes(model_bytes(m, bs))) for bs in self.names)

    def classify(self, m):
        """recorded finding: among the three names one pair shares its base (text before the decimal suffix) and is compared by
        number, another pair has different bases and is compared as text. Any other failure is a new violation."""
        import re as _re
        names = [bytes(model_bytes(m, bs)) for bs in self.names]
        bases = []
        for n_ in names:
            mm = _re.match(rb'^(.*?)(\d+)$', n_)
            bases.append(mm.group(1) if mm else None)
        dec = [b for b in bases if b is not None]
        if len(dec) >= 2 and len(set(dec)) < len(dec) and (len(set(dec)) > 1 or len(dec) < 3):
            return 'C14-element-name-order-cycle'
        return None

    def prop(self, out, ex):
        if out[0] == 'panic':
            self.require(ex, False, 'element comparison panicked: ' + out[1])
            return
        r = out[1]
        self.cover('compared')
        msg = order_violation(r)
        if msg is not None:
            if msg.startswith('not transitive'):
                self.require(ex, False, msg, classify=self.classify)
            else:
                self.require(ex, False, msg)
        else:
            for (i, j, k) in ((0, 1, 'ab'), (0, 2, 'ac'), (1, 2, 'bc')):
                same = bytes_eq(self.names[i], self.names[j])
                self.require(ex, same if r[k] == 'Equal' else znot(same), f'cmp({k[0]},{k[1]}) == Equal is not the same as equal item names')


# =====================================================================================================
# C08: element-level checks of the loader (sub-element lookup with version, exclusive choice, multiplicity)
#      executed on their MIR with the specification's answers symbolic
# =====================================================================================================
@register
class C08Element(ParserHarness):
    mode = 'multiplicity'        # multiplicity | conflict | find
    native = ('data', 'n_c08_element')
    n = 0

    def setup(self, ex):
        self.fv = z3.BitVec('fileversion', 32)
        ex.assume(z3.And(self.fv != 0, (self.fv & (self.fv - 1)) == 0, z3.ULT(self.fv, 1 << 21)))
        self.line = z3.BitVec('line', 64)
        self.total = z3.BitVec('total', 64)
        ex.assume(z3.And(z3.UGE(self.line, 1), z3.ULE(self.line, self.total)))

    def parsers(self):
        ps, pl = self.parser(True), self.parser(False)
        for p in (ps, pl):
            p.fields[P_FILEVERSION] = I(self.fv, False, 'u32')
        return ps, pl

    def pick(self, ex, name, options):
        """symbolic choice among python values (forks)"""
        v = z3.BitVec(name, 8)
        ex.assume(z3.ULT(v, len(options)))
        self.choices[name] = (v, options)
        return options[ex.concretize(I(v, False, 'u8'), limit=len(options) + 1)]

    def run(self, ex):
        self.choices = {}
        self.setup(ex)
        et = Agg('ElementType', None, [mk_int(0, 'u16'), mk_int(1, 'u16')])
        ps, pl = self.parsers()
        M = ex.models
        if self.mode == 'multiplicity':
            f = find_fn(ex.prog, '::check_multiplicity', 'parser.rs')
            cmode = self.pick(ex, 'container_mode', ['Sequence', 'Choice', 'Bag', 'Mixed'])
            mult = self.pick(ex, 'multiplicity', [None, 'ZeroOrOne', 'One', 'Any'])
            self.cmode, self.mult = cmode, mult
            names = [z3.BitVec(f'existing{i}', 16) for i in range(2)] + [z3.BitVec('new_name', 16)]
            for v in names:
                ex.assume(z3.ULT(v, 3))
            self.names = names
            M.add(r'^autosar_data_specification::ElementType::get_sub_element_container_mode$', lambda ex_, c, a: Agg('ContentMode', cmode, []), prefer=True)
            M.rx.insert(0, M.rx.pop())
            M.add(r'^autosar_data_specification::ElementType::get_sub_element_multiplicity$', lambda ex_, c, a: NONE() if mult is None else some(Agg('ElementMultiplicity', mult, [])), prefer=True)
            M.rx.insert(0, M.rx.pop())
            M.add(r'^<ElementMultiplicity as PartialEq>::(eq|ne)$', lambda ex_, c, a: (ex_.deref(a[0]).variant == ex_.deref(a[1]).variant) == c.endswith('eq'), prefer=True)
            M.rx.insert(0, M.rx.pop())
            subs = [Agg('ElementContent', 'Element', [mk_element(0, 2, [])]) for _ in range(2)]
            for s_, nm in zip(subs, names[:2]):
                raw = s_.fields[0].fields[0].fields[0].cell.v.fields[0]
                raw.fields[1] = I(nm, False, 'u16')
            parent_raw = mk_element(0, 1, subs).fields[0].fields[0].cell.v.fields[0]
            idx = Slice([usize(0)], 0, 1, False)
            outs = []
            for p in (ps, pl):
                r = ex.call(f, [Ref(Cell(p)), I(names[2], False, 'u16'), et, idx, Ref(Cell(parent_raw))])
                outs.append((r, p))
            return outs
        if self.mode == 'conflict':
            f = find_fn(ex.prog, '::check_element_conflict', 'parser.rs')
            gmode = self.pick(ex, 'group_mode', ['Sequence', 'Choice', 'Bag', 'Mixed'])
            self.gmode = gmode
            la = self.pick(ex, 'len_old', [0, 1, 2])
            lb = self.pick(ex, 'len_new', [1, 2])
            a_ = [z3.BitVec(f'old{i}', 64) for i in range(la)]
            b_ = [z3.BitVec(f'new{i}', 64) for i in range(lb)]
            for v in a_ + b_:
                ex.assume(z3.ULT(v, 2))
            self.old, self.new = a_, b_
            M.add(r'^autosar_data_specification::ElementType::find_common_group$', lambda ex_, c, a: Agg('GroupType', None, []), prefer=True)
            M.rx.insert(0, M.rx.pop())
            M.add(r'^GroupType::content_mode$|^autosar_data_specification::GroupType::content_mode$', lambda ex_, c, a: Agg('ContentMode', gmode, []), prefer=True)
            M.rx.insert(0, M.rx.pop())
            M.add(r'^<&\[usize\] as PartialEq<&Vec<usize>>>::eq$', self.m_idx_eq, prefer=True)
            M.rx.insert(0, M.rx.pop())
            M.add(r'^core::slice::<impl \[usize\]>::is_empty$', lambda ex_, c, a: ex_.length_of(a[0]) == 0, prefer=True)
            M.rx.insert(0, M.rx.pop())
            outs = []
            for p in (ps, pl):
                old = Slice([I(v, False, 'usize') for v in a_], 0, la, False)
                newv = VecV([I(v, False, 'usize') for v in b_])
                r = ex.call(f, [Ref(Cell(p)), mk_int(1, 'u16'), et, old, Ref(Cell(newv))])
                outs.append((r, p))
            return outs
        # find
        f = find_fn(ex.prog, '::find_element_in_spec_checked', 'parser.rs')
        self.listed = z3.Bool('listed_in_some_version')
        self.mask = z3.BitVec('sub_element_version_mask', 32)

        def find_sub_element(ex_, c, a):
            ver = a[2]
            cond = z3.And(self.listed, (self.mask & ver.e) != 0)
            if ex_.decide(cond):
                return some(Agg('tuple', None, [Agg('ElementType', None, [mk_int(0, 'u16'), mk_int(2, 'u16')]), VecV([usize(0)])]))
            return NONE()
        M.add(r'^autosar_data_specification::ElementType::find_sub_element$', find_sub_element, prefer=True)
        M.rx.insert(0, M.rx.pop())
        M.add(r'^autosar_data_specification::ElementType::get_sub_element_version_mask$', lambda ex_, c, a: some(I(self.mask, False, 'u32')), prefer=True)
        M.rx.insert(0, M.rx.pop())
        outs = []
        for p in (ps, pl):
            r = ex.call(f, [Ref(Cell(p)), mk_int(5, 'u16'), et])
            outs.append((r, p))
        return outs

    def replay_vals(self, m):
        def ch(name):
            v, opts = self.choices[name]
            return m.eval(v, model_completion=True).as_long() % len(opts)
        if self.mode == 'multiplicity':
            nm = [m.eval(v, model_completion=True).as_long() for v in self.names]
            return [[0], [ch('container_mode')], [ch('multiplicity')], [1 if nm[2] in nm[:2] else 0]]
        if self.mode == 'conflict':
            old = [m.eval(v, model_completion=True).as_long() for v in self.old]
            new = [m.eval(v, model_completion=True).as_long() for v in self.new]
            return [[1], [ch('group_mode')], [1 if old != new else 0]]
        listed = z3.is_true(m.eval(self.listed, model_completion=True))
        avail = listed and (m.eval(self.mask, model_completion=True).as_long() & m.eval(self.fv, model_completion=True).as_long()) != 0
        return [[2], [1 if listed else 0], [1 if avail else 0]]

    def m_idx_eq(self, ex, c, a):
        x = [v.e for v in ex.deref(a[0]).items()]
        y = [v.e for v in ex.deref(ex.deref(a[1])).items]
        if len(x) != len(y):
            return False
        return zand(*[p == q for p, q in zip(x, y)]) if x else True

    def describe(self, m):
        parts = [f'{k}={opts[m.eval(v, model_completion=True).as_long() % len(opts)]}' for k, (v, opts) in self.choices.items()]
        for nm in ('names', 'old', 'new'):
            if hasattr(self, nm):
                parts.append(f"{nm}={[m.eval(v, model_completion=True).as_long() for v in getattr(self, nm)]}")
        if self.mode == 'find':
            parts.append(f'listed={m.eval(self.listed, model_completion=True)} mask={m.eval(self.mask, model_completion=True)} fileversion={m.eval(self.fv, model_completion=True)}')
        return ', '.join(parts)

    def prop(self, out, ex):
        if out[0] == 'panic':
            self.require(ex, False, 'panic: ' + out[1])
            return
        (rs, ps), (rl, pl) = out[1]
        wl = warnings_of(pl)
        self.cover('strict accepts' if rs.variant == 'Ok' else 'strict rejects')
        if rs.variant == 'Ok':
            self.require(ex, rl.variant == 'Ok' and len(wl) == 0, 'strict accepts what lenient rejects or warns about')
        else:
            sl, ssrc = err_parts(rs.fields[0])
            self.require(ex, self.line_ok(sl), 'strict error names a line outside the document')
            if rl.variant == 'Ok':
                self.require(ex, len(wl) > 0, 'lenient silently accepts what strict rejects')
                if wl:
                    wline, wsrc = err_parts(wl[0])
                    self.require(ex, wsrc.variant == ssrc.variant and bool(z3.is_true(z3.simplify(wline.e == sl.e))), 'strict error is not the first lenient warning')
            else:
                _, lsrc = err_parts(rl.fields[0])
                self.require(ex, lsrc.variant == ssrc.variant, 'strict and lenient fail with different hard errors')
        # no holes
        if self.mode == 'multiplicity':
            dup = zor(self.names[2] == self.names[0], self.names[2] == self.names[1])
            must_reject = self.cmode in ('Sequence', 'Choice') and self.mult in ('One', 'ZeroOrOne')
            if must_reject:
                self.require(ex, zor(znot(dup), rs.variant == 'Err'), 'strict loading accepts a repeated single-occurrence sub-element')
            if rs.variant == 'Err':
                self.require(ex, zand(dup, must_reject), 'strict loading rejects a sub-element that may be repeated or is not repeated')
        elif self.mode == 'conflict':
            different = True if len(self.old) != len(self.new) else znot(zand(*[p == q for p, q in zip(self.old, self.new)]))
            conflict = self.gmode == 'Choice' and len(self.old) > 0
            if conflict:
                self.require(ex, zor(znot(different), rs.variant == 'Err'), 'strict loading accepts two different alternatives of an exclusive choice')
            if rs.variant == 'Err':
                self.require(ex, zand(different, conflict), 'strict loading reports a choice conflict where there is none')
        else:
            avail = zand(self.listed, (self.mask & self.fv) != 0)
            self.require(ex, (rs.variant == 'Ok') == avail if isinstance(avail, bool) else (avail if rs.variant == 'Ok' else znot(avail)),
                         'strict loading accepts a sub-element that is unknown or not available in the file version (or rejects one that is)')


# =====================================================================================================
# parse_element on short token sequences: the real tokenizer + the real recursive-descent element parser, executed on
# their MIR against a four-type mini schema (the specification crate's answers are given by the harness)
# =====================================================================================================
MINI_TOKENS = [b'<AR-PACKAGES>', b'</AR-PACKAGES>', b'<AR-PACKAGE>', b'</AR-PACKAGE>', b'<SHORT-NAME>', b'</SHORT-NAME>', b'<CATEGORY>', b'</CATEGORY>',
               None, b'<!--c-->', b'</AUTOSAR>']
TK_TEXT, TK_COMMENT, TK_END_ROOT = 8, 9, 10
# tokens of the mixed-content extension (documentation text: AR-PACKAGE > DESC > L-2 (mixed: text, BR, SUP; required attribute L))
MIXED_EXTRA = [b'<DESC>', b'</DESC>', b'<L-2 L="EN">', b'</L-2>', b'<BR/>', b'<SUP>', b'</SUP>', b'<L-2>']
ALL_TOKENS = MINI_TOKENS + MIXED_EXTRA
TK_DESC, TK_DESC_END, TK_L2, TK_L2_END, TK_BR, TK_SUP, TK_SUP_END, TK_L2_NOATTR = 11, 12, 13, 14, 15, 16, 17, 18
# type ids of the mini schema (it mirrors the real one for these elements, so that counterexamples replay through load_buffer)
T_ROOT, T_PKGS, T_PKG, T_SN, T_CAT = 1, 2, 3, 4, 5
T_DESC, T_L2, T_BR, T_SUP = 6, 7, 8, 9


def ident_validator(ex, args):
    """[a-zA-Z][a-zA-Z0-9_]* - the pattern of SHORT-NAME and CATEGORY values"""
    from models import is_alpha, is_digit
    bs = as_bytes_list(ex, args[0])
    if not bs:
        return False
    return zand(is_alpha(bs[0]), *[z3.Or(is_alpha(b), is_digit(b), b == 0x5f) for b in bs[1:]])


def install_mini_schema(ex, h):
    """answers of autosar-data-specification for: AUTOSAR > AR-PACKAGES (0..1) > AR-PACKAGE* > SHORT-NAME (1), CATEGORY (0..1, version
    mask symbolic), AR-PACKAGES (0..1); SHORT-NAME and CATEGORY are identifier-typed character elements"""
    M = ex.models
    tab = string_table('elementname.rs')
    idx_of = {t: i for i, t in enumerate(tab)}
    N_PKGS, N_PKG, N_SN, N_CAT, N_ROOT = idx_of[b'AR-PACKAGES'], idx_of[b'AR-PACKAGE'], idx_of[b'SHORT-NAME'], idx_of[b'CATEGORY'], idx_of[b'AUTOSAR']
    N_DESC, N_L2, N_BR, N_SUP = idx_of[b'DESC'], idx_of[b'L-2'], idx_of[b'BR'], idx_of[b'SUP']
    h.ids = dict(pkgs=N_PKGS, pkg=N_PKG, sn=N_SN, cat=N_CAT, root=N_ROOT, desc=N_DESC, l2=N_L2, br=N_BR, sup=N_SUP)
    subs = {T_ROOT: [(N_PKGS, T_PKGS, 'ZeroOrOne', None)], T_PKGS: [(N_PKG, T_PKG, 'Any', None)],
            T_PKG: [(N_SN, T_SN, 'One', None), (N_CAT, T_CAT, 'ZeroOrOne', 'cat'), (N_PKGS, T_PKGS, 'ZeroOrOne', None), (N_DESC, T_DESC, 'ZeroOrOne', None)], T_SN: [], T_CAT: [],
            # mixed-content extension: DESC > L-2* (mixed) > BR (empty element), SUP (character element), text
            T_DESC: [(N_L2, T_L2, 'Any', None)], T_L2: [(N_BR, T_BR, 'One', None), (N_SUP, T_SUP, 'One', None)], T_BR: [], T_SUP: []}
    CHAR_TYPES = (T_SN, T_CAT, T_SUP)
    plain_spec = Ref(Cell(spec_string(False, None)))
    atab = string_table('attributename.rs')
    A_L = atab.index(b'L')
    etab = string_table('enumitem.rs')
    l_spec = Ref(Cell(spec_enum([(mk_int(etab.index(b'EN'), 'u16'), mk_int(0x1fffff, 'u32'))])))
    h.subs = subs
    str_spec = Ref(Cell(spec_pattern(ident_validator, 128)))

    def tid(a):
        t = ex.deref(a) if isinstance(a, (Ref, ElemRef)) else a
        return t.fields[1].conc()

    def mask_of(entry):
        return h.cat_mask if entry[3] == 'cat' else bv(0xffffffff, 32)

    def from_bytes(ex_, c, a):
        bs = [z3.simplify(x) for x in as_bytes_list(ex_, a[0])]
        if not all(z3.is_bv_value(x) for x in bs):
            raise Unsupported('symbolic element name')
        key = bytes(x.as_long() for x in bs)
        if key in idx_of:
            return ok(mk_int(idx_of[key], 'u16'))
        return err(Opaque('ParseElementNameError'))

    def find_sub_element(ex_, c, a):
        t = tid(a[0])
        name = a[1].conc()
        ver = a[2]
        for i, e in enumerate(subs[t]):
            if e[0] == name:
                if ex_.decide((mask_of(e) & ver.e) != 0):
                    return some(Agg('tuple', None, [Agg('ElementType', None, [mk_int(0, 'u16'), mk_int(e[1], 'u16')]), VecV([usize(i)])]))
                return NONE()
        return NONE()

    def entry(a_t, a_idx):
        t = tid(a_t)
        i = ex.deref(a_idx).items()[0].conc() if isinstance(a_idx, (Ref,)) else a_idx.items()[0].conc()
        return subs[t][i]
    adds = [
        (r'^autosar_data_specification::ElementName::from_bytes$', from_bytes),
        (r'^autosar_data_specification::ElementName::to_str$', lambda ex_, c, a: str_slice(tab[(ex_.deref(a[0]) if isinstance(a[0], (Ref, ElemRef)) else a[0]).conc()])),
        (r'^autosar_data_specification::ElementType::find_sub_element$', find_sub_element),
        (r'^autosar_data_specification::ElementType::get_sub_element_version_mask$', lambda ex_, c, a: some(I(mask_of(entry(a[0], a[1])), False, 'u32'))),
        (r'^autosar_data_specification::ElementType::get_sub_element_multiplicity$', lambda ex_, c, a: some(Agg('ElementMultiplicity', entry(a[0], a[1])[2], []))),
        (r'^autosar_data_specification::ElementType::get_sub_element_container_mode$', lambda ex_, c, a: Agg('ContentMode', 'Mixed' if tid(a[0]) == T_L2 else 'Sequence', [])),
        (r'^autosar_data_specification::ElementType::find_common_group$', lambda ex_, c, a: Agg('GroupType', None, [mk_int(tid(a[0]), 'u16')])),
        (r'^(autosar_data_specification::)?GroupType::content_mode$', lambda ex_, c, a: Agg('ContentMode', 'Mixed' if (ex_.deref(a[0]) if isinstance(a[0], (Ref, ElemRef)) else a[0]).fields[0].conc() == T_L2 else 'Sequence', [])),
        (r'^autosar_data_specification::ElementType::content_mode$', lambda ex_, c, a: Agg('ContentMode', 'Characters' if tid(a[0]) in CHAR_TYPES else ('Mixed' if tid(a[0]) == T_L2 else 'Sequence'), [])),
        (r'^autosar_data_specification::ElementType::chardata_spec$', lambda ex_, c, a: some(str_spec) if tid(a[0]) in (T_SN, T_CAT) else (some(plain_spec) if tid(a[0]) in (T_L2, T_SUP) else NONE())),
        (r'^autosar_data_specification::ElementType::is_ref$', lambda ex_, c, a: False),
        (r'^autosar_data_specification::ElementType::is_named_in_version$', lambda ex_, c, a: tid(a[0]) == T_PKG),
        (r'^autosar_data_specification::ElementType::is_named$', lambda ex_, c, a: tid(a[0]) == T_PKG),
        (r'^<ElementMultiplicity as PartialEq>::(eq|ne)$', lambda ex_, c, a: (ex_.deref(a[0]).variant == ex_.deref(a[1]).variant) == c.endswith('eq')),
        (r'^<&\[usize\] as PartialEq<&Vec<usize>>>::eq$', lambda ex_, c, a: [v.conc() for v in ex_.deref(a[0]).items()] == [v.conc() for v in ex_.deref(ex_.deref(a[1])).items]),
        (r'^core::slice::<impl \[usize\]>::is_empty$', lambda ex_, c, a: ex_.length_of(a[0]) == 0),
        (r'^Vec::<usize>::new$', lambda ex_, c, a: VecV()),
        (r'^std::sync::Arc::<.*>::new$', lambda ex_, c, a: Agg('Arc', None, [Ref(Cell(a[0]))])),
        (r'^std::sync::Arc::<.*>::downgrade$', lambda ex_, c, a: Opaque('Weak')),
        (r'^parking_lot::lock_api::RwLock::<.*>::new$', lambda ex_, c, a: Agg('RwLock', None, [a[0]])),
        (r'^std::collections::HashSet::<.*>::with_capacity$', lambda ex_, c, a: Opaque('HashSet')),
        (r"^<Cow<'_, str> as Into<std::string::String>>::into$", lambda ex_, c, a: Str(as_bytes_list(ex_, a[0].fields[0]))),
        (r"^<Cow<'_, str> as From<std::string::String>>::from$", lambda ex_, c, a: Agg('Cow', 'Owned', [a[0]])),
        (r"^<Cow<'_, str> as AsRef<str>>::as_ref$", lambda ex_, c, a: Slice(as_bytes_list(ex_, ex_.deref(a[0]).fields[0]), 0, len(as_bytes_list(ex_, ex_.deref(a[0]).fields[0])), True)),
    ]
    install_attr_models(M, [])
    install_enum_table_models(M)

    # attributes of the mixed-content extension: L-2 has the required enum-typed attribute L; no other element type has attributes
    def attr_from_bytes(ex_, c, a):
        bs = [z3.simplify(x) for x in as_bytes_list(ex_, a[0])]
        if not all(z3.is_bv_value(x) for x in bs):
            raise Unsupported('symbolic attribute name')
        key = bytes(x.as_long() for x in bs)
        if key in atab:
            return ok(mk_int(atab.index(key), 'u16'))
        return err(Opaque('ParseAttributeNameError'))

    def find_attribute_spec(ex_, c, a):
        if tid(a[0]) == T_L2 and a[1].conc() == A_L:
            return some(Agg('AttributeSpec', None, [l_spec, True, mk_int(0x1fffff, 'u32')]))
        return NONE()

    def attr_spec_iter(ex_, c, a):
        from mirexec import Iter
        items = [Agg('tuple', None, [mk_int(A_L, 'u16'), l_spec, True])] if tid(a[0]) == T_L2 else []
        return Iter('attrdefs', Slice(items, 0, len(items), False), 0)
    adds += [(r'^autosar_data_specification::AttributeName::from_bytes$', attr_from_bytes),
             (r'^autosar_data_specification::ElementType::find_attribute_spec$', find_attribute_spec),
             (r'^autosar_data_specification::ElementType::attribute_spec_iter$', attr_spec_iter)]
    for variant, text in (('ShortName', b'SHORT-NAME'), ('Autosar', b'AUTOSAR'), ('ArPackage', b'AR-PACKAGE'), ('ArPackages', b'AR-PACKAGES'), ('Category', b'CATEGORY')):
        v = mk_int(idx_of[text], 'u16')
        M.consts[f'autosar_data_specification::ElementName::{variant}'] = v
        M.consts[f'ElementName::{variant}'] = v
    for pat, fn in adds:
        M.add(pat, fn, prefer=True)
        M.rx.insert(0, M.rx.pop())


@register
class ParseElementDoc(E2Harness):
    """body of the root element given as a sequence of tokens (indices into MINI_TOKENS); text tokens are one symbolic byte"""
    tokens = [0, 2, 4, 8, 5, 3, 1, 10]
    sym_texts = 99          # text tokens beyond this many are the concrete letter x
    first_text_concrete = False   # the first text token (the SHORT-NAME of the package in the seed documents) is the letter x
    sym_comments = 0        # this many comment tokens (in document order) have a text of three symbolic bytes, the others are <!--c-->
    native = ('data', 'n_parse_element_doc')
    max_visits = 4096
    max_steps = 400000
    bound_is_hang = True

    def build_doc(self, ex):
        doc = []
        self.text = []
        self.comments = []
        for t in self.tokens:
            tok = ALL_TOKENS[t]
            if t == TK_COMMENT:
                if len(self.comments) < self.sym_comments:
                    cb = [z3.BitVec(f'comment{len(self.comments)}_{j}', 8) for j in range(3)]
                    for b in cb:
                        ex.assume(z3.And(b != 0x3e, z3.ULT(b, 0x80)))     # ASCII, no `>`: the comment ends at the token's own `-->`
                else:
                    cb = [bv(0x63, 8)]
                self.comments.append(cb)
                doc.extend([bv(c, 8) for c in b'<!--'] + cb + [bv(c, 8) for c in b'-->'])
            elif tok is None:
                if self.first_text_concrete and not self.text:
                    b = bv(0x78, 8)
                elif len(self.text) < self.sym_texts:
                    b = z3.BitVec(f'text{len(self.text)}', 8)
                    ex.assume(z3.And(b != 0x3c, z3.ULT(b, 0x80)))
                else:
                    b = bv(0x78, 8)
                self.text.append(b)
                doc.append(b)
            else:
                doc.extend(bv(c, 8) for c in tok)
        return doc

    def run(self, ex):
        install_mini_schema(ex, self)
        self.fv = z3.BitVec('fileversion', 32)
        ex.assume(z3.And(self.fv != 0, (self.fv & (self.fv - 1)) == 0, z3.ULT(self.fv, 1 << 21)))
        self.cat_mask = z3.BitVec('category_version_mask', 32)
        f_new = find_fn(ex.prog, '::new', 'lexer.rs')
        f_pe = find_fn(ex.prog, '::parse_element', 'parser.rs')
        f_end = find_fn(ex.prog, '::verify_end_of_input', 'parser.rs')
        doc = self.build_doc(ex)
        outs = []
        for strict in (True, False):
            p = mk_parser(strict, usize(1))
            p.fields[P_FILEVERSION] = I(self.fv, False, 'u32')
            pcell = Cell(p)
            self._pref = lambda _p, _c=pcell: Ref(_c)
            lx = ex.call(f_new, [Slice(list(doc), 0, len(doc), False), Opaque('PathBuf')])
            root = Agg('ElementRaw', None, [Agg('ElementOrModel', 'None', []), mk_int(self.ids['root'], 'u16'),
                                            Agg('ElementType', None, [mk_int(0, 'u16'), mk_int(T_ROOT, 'u16')]),
                                            VecV([], ty='SmallVec'), VecV([], ty='SmallVec'), Opaque('HashSet'), NONE()])
            lxc = Cell(lx)
            r = ex.call(f_pe, [Ref(pcell), root, Agg('Cow', 'Borrowed', [Slice([], 0, 0, True)]), Ref(lxc)])
            if r.variant == 'Ok':
                # parse_arxml: the root element must be followed by nothing but white space / comments
                r2 = ex.call(f_end, [Ref(pcell), Ref(lxc)])
                if r2.variant == 'Err':
                    r = r2
            outs.append((r, p))
            if self.aspect == 'c01rt':
                if r.variant != 'Ok' or len(warnings_of(p)) > 0:
                    return outs + [None]
                # load -> serialize -> load -> serialize on the real serializer and the real loader
                f_ser = find_fn(ex.prog, '::serialize_internal', 'element.rs:7:1')
                f_next = [n_ for n_ in ex.prog.raw if n_.endswith('::next') and 'lexer.rs' in n_ and 'closure' not in n_][0]
                none_file = Ref(Cell(NONE()))
                t1 = Str()
                ex.call(f_ser, [Ref(Cell(r.fields[0])), Ref(Cell(t1)), usize(0), False, none_file])
                p2 = mk_parser(True, usize(1))
                p2.fields[P_FILEVERSION] = I(self.fv, False, 'u32')
                lx2 = Cell(ex.call(f_new, [Slice(list(t1.b), 0, len(t1.b), False), Opaque('PathBuf')]))
                first = ex.call(f_next, [Ref(lx2)])
                if first.variant != 'Ok' or first.fields[0].fields[1].variant != 'BeginElement':
                    return outs + [('reload-rejected', t1, first)]
                root2 = Agg('ElementRaw', None, [Agg('ElementOrModel', 'None', []), mk_int(self.ids['root'], 'u16'),
                                                 Agg('ElementType', None, [mk_int(0, 'u16'), mk_int(T_ROOT, 'u16')]),
                                                 VecV([], ty='SmallVec'), VecV([], ty='SmallVec'), Opaque('HashSet'), NONE()])
                p2c = Cell(p2)
                r3 = ex.call(f_pe, [Ref(p2c), root2, Agg('Cow', 'Borrowed', [Slice([], 0, 0, True)]), Ref(lx2)])
                if r3.variant != 'Ok':
                    return outs + [('reload-rejected', t1, r3)]
                t2 = Str()
                ex.call(f_ser, [Ref(Cell(r3.fields[0])), Ref(Cell(t2)), usize(0), False, none_file])
                return outs + [('ok', r.fields[0], t1, r3.fields[0], t2)]
        return outs

    def replay_vals(self, m):
        cm = []
        for cb in self.comments:
            cm += [[len(cb)]] + [[x] for x in model_bytes(m, cb)]
        return ([le_bytes(len(self.tokens), 8)] + [[t] for t in self.tokens] + [[x] for x in model_bytes(m, self.text)] + cm +
                [le_bytes(m.eval(self.fv, model_completion=True).as_long(), 4), le_bytes(m.eval(self.cat_mask, model_completion=True).as_long(), 4),
                 [{'c01': 1, 'c02': 2, 'c08': 8, 'c01rt': 9, 'c08rel': 18}[self.aspect]]])

    def describe(self, m):
        it = iter(model_bytes(m, self.text))
        ci = iter(self.comments)
        s = b''.join((b'<!--' + bytes(model_bytes(m, next(ci))) + b'-->' if t == TK_COMMENT else ALL_TOKENS[t] if ALL_TOKENS[t] is not None else bytes([next(it)])) for t in self.tokens)
        return f"{s!r} fileversion={m.eval(self.fv, model_completion=True)} category_mask={m.eval(self.cat_mask, model_completion=True)}"

    # ---- independent reading of the token sequence against the mini schema ----
    def reference(self, ex):
        """returns (wellformed: python bool or z3 Bool, tree) ; forks on the symbolic text bytes / masks where needed"""
        toks = list(self.tokens)
        ti = iter(self.text)
        ci = iter(self.comments)
        pos = 0
        names = {0: 'pkgs', 2: 'pkg', 4: 'sn', 6: 'cat'}
        ends = {1: 'pkgs', 3: 'pkg', 5: 'sn', 7: 'cat', 10: 'root'}
        allowed = {'root': {'pkgs'}, 'pkgs': {'pkg'}, 'pkg': {'sn', 'cat', 'pkgs'}, 'sn': set(), 'cat': set()}
        single = {'root': {'pkgs'}, 'pkgs': set(), 'pkg': {'sn', 'cat', 'pkgs'}}
        conds = []

        def parse(kind):
            nonlocal pos
            children = []
            seen = set()
            text = []
            content = []
            pending_comment = None
            while True:
                if pos >= len(toks):
                    return None                      # unexpected end of input
                t = toks[pos]
                pos += 1
                if t in names:
                    k = names[t]
                    if k not in allowed[kind]:
                        return None                  # unknown in this context (incl. sub-elements inside character elements)
                    if k in single.get(kind, ()):
                        if k in seen:
                            return None              # single-occurrence sub-element repeated
                        seen.add(k)
                    if k == 'cat':
                        conds.append((self.cat_mask & self.fv) != 0)
                    had_comment = pending_comment
                    pending_comment = None
                    sub = parse(k)
                    if sub is None:
                        return None
                    sub['comment'] = had_comment
                    children.append((k, sub))
                    content.append(('elem', k, sub))
                elif t in ends:
                    if ends[t] != kind:
                        return None
                    if kind == 'pkg' and 'sn' not in seen:
                        return None                  # SHORT-NAME missing
                    return dict(children=children, text=text, content=content)
                elif t == TK_TEXT:
                    # adjacent text tokens are ONE run of character data for the tokenizer
                    run = [next(ti)]
                    while pos < len(toks) and toks[pos] == TK_TEXT:
                        run.append(next(ti))
                        pos += 1
                    val = ref_trim(ex, run)
                    if not val:
                        continue                     # white-space-only text is not a token
                    if kind not in ('sn', 'cat'):
                        return None                  # character content forbidden
                    from models import is_alpha, is_digit
                    if not ex.decide(is_alpha(val[0])):
                        return None                  # identifier: a letter first
                    for b in val[1:]:
                        if not ex.decide(z3.Or(is_alpha(b), is_digit(b), b == 0x5f)):
                            return None
                    text.append(val)
                    content.append(('text', val))
                elif t == TK_COMMENT:
                    pending_comment = next(ci)
                    continue
        tree = parse('root')
        if tree is None:
            return False, None
        # data after the root element: anything but white space / comments
        while pos < len(toks):
            t = toks[pos]
            pos += 1
            if t == TK_COMMENT:
                continue
            if t == TK_TEXT:
                if ex.decide(is_ws(next(ti))):
                    continue
            return False, None
        return (zand(*conds) if conds else True), tree

    aspect = 'c08'      # which property's assertions are active: c02 (total, lines) | c08 (strict/lenient, no holes) | c01 (faithful tree)

    def same_tree(self, ex, elem, ref, kind):
        """the loaded element equals the reference reading: sub-elements and text items in document order, comments attached"""
        raw = elem.fields[0].fields[0].cell.v.fields[0]
        names = {'pkgs': self.ids['pkgs'], 'pkg': self.ids['pkg'], 'sn': self.ids['sn'], 'cat': self.ids['cat'], 'root': self.ids['root']}
        if raw.fields[1].conc() != names[kind]:
            return False
        items = raw.fields[3].items
        if len(items) != len(ref['content']):
            return False
        conds = []
        for it, rc in zip(items, ref['content']):
            if rc[0] == 'text':
                if it.variant != 'CharacterData' or it.fields[0].variant != 'String':
                    return False
                b = list(it.fields[0].fields[0].b)
                if len(b) != len(rc[1]):
                    return False
                conds.append(bytes_eq(b, rc[1]))
            else:
                if it.variant != 'Element':
                    return False
                sub_raw = it.fields[0].fields[0].fields[0].cell.v.fields[0]
                has_comment = sub_raw.fields[6].variant == 'Some'
                if has_comment != (rc[2]['comment'] is not None):
                    return False
                if has_comment:
                    got = list(sub_raw.fields[6].fields[0].b)
                    if len(got) != len(rc[2]['comment']):
                        return False
                    conds.append(bytes_eq(got, rc[2]['comment']))
                r = self.same_tree(ex, it.fields[0], rc[2], rc[1])
                if r is False:
                    return False
                if r is not True:
                    conds.append(r)
        return zand(*conds) if conds else True

    def tree_equal(self, e1, e2):
        """structural equality of two loaded trees (names, comments, content items in order)"""
        r1 = e1.fields[0].fields[0].cell.v.fields[0]
        r2 = e2.fields[0].fields[0].cell.v.fields[0]
        if r1.fields[1].conc() != r2.fields[1].conc():
            return False
        c1, c2 = r1.fields[6], r2.fields[6]
        if c1.variant != c2.variant:
            return False
        conds = []
        if c1.variant == 'Some':
            conds.append(bytes_eq(list(c1.fields[0].b), list(c2.fields[0].b)))
        a1, a2 = r1.fields[4].items, r2.fields[4].items
        if len(a1) != len(a2):
            return False
        for x, y in zip(a1, a2):
            if x.fields[0].conc() != y.fields[0].conc():
                return False
            conds.append(cdata_equal(x.fields[1], y.fields[1]))
        i1, i2 = r1.fields[3].items, r2.fields[3].items
        if len(i1) != len(i2):
            return False
        for a, b in zip(i1, i2):
            if a.variant != b.variant:
                return False
            if a.variant == 'CharacterData':
                conds.append(cdata_equal(a.fields[0], b.fields[0]))
            else:
                conds.append(self.tree_equal(a.fields[0], b.fields[0]))
        if any(c is False for c in conds):
            return False
        conds = [c for c in conds if c is not True]
        return zand(*conds) if conds else True

    def has_split_text(self, e):
        """recorded finding: a character element holds more than one text item (a comment split its text)"""
        raw = e.fields[0].fields[0].cell.v.fields[0]
        items = raw.fields[3].items
        # a character-data element with several text items, or a mixed-content element (L-2) with two ADJACENT text items
        # (text items separated by sub-elements are what mixed content legitimately holds)
        tcode = raw.fields[2].fields[1].conc()
        if tcode in (T_SN, T_CAT, T_SUP) and sum(1 for it in items if it.variant == 'CharacterData') > 1:
            return True
        if tcode == T_L2 and any(a.variant == 'CharacterData' and b.variant == 'CharacterData' for a, b in zip(items, items[1:])):
            return True
        return any(self.has_split_text(it.fields[0]) for it in items if it.variant == 'Element')

    def prop(self, out, ex):
        if out[0] == 'panic':
            self.cover('panic')
            if self.aspect == 'c02':
                self.require(ex, False, 'panic while parsing: ' + out[1])
            return
        if self.aspect == 'c01rt':
            rt = out[1][-1]
            if rt is None:
                self.cover('not loaded cleanly')
                return
            self.cover('round trip')
            key = 'C01-comment-inside-character-data' if rt[0] == 'ok' and self.has_split_text(rt[1]) else None
            if rt[0] == 'reload-rejected':
                self.require(ex, False, 'the text written for a loaded document is rejected when loaded again')
                return
            _, tree1, t1, tree2, t2 = rt
            self.require(ex, self.tree_equal(tree1, tree2), 'load -> serialize -> load changes the model', known_key=key)
            self.require(ex, bytes_eq(list(t1.b), list(t2.b)), 'second serialization differs from the first', known_key=key)
            return
        (rs, ps), (rl, pl) = out[1][0], out[1][1]
        wl = warnings_of(pl)
        self.cover('strict accepts' if rs.variant == 'Ok' else 'strict rejects')
        if self.aspect == 'c01':
            for r in (rs, rl):
                if r.variant == 'Ok' and (r is rs or len(wl) == 0):
                    okref, tree = self.reference(ex)
                    if tree is not None:
                        self.require(ex, self.same_tree(ex, r.fields[0], tree, 'root'), 'the loaded tree differs from the document (elements, text items, order, attached comments)')
            return
        if self.aspect == 'c02':
            for r, p in out[1]:
                if r.variant == 'Err':
                    e = r.fields[0]
                    if isinstance(e, Agg) and e.variant in ('ParserError', 'LexerError'):
                        ln = e.fields[1]
                        total = bv(1, 64)
                        for b in self.text + [x for cb in self.comments for x in cb]:
                            total = total + z3.If(b == 0x0a, bv(1, 64), bv(0, 64))
                        self.require(ex, z3.And(z3.UGE(ln.e, 1), z3.ULE(ln.e, total)), 'error names a line outside the document')
            return
        for r, p in []:
            if r.variant == 'Err':
                e = r.fields[0]
                if isinstance(e, Agg) and e.variant in ('ParserError', 'LexerError'):
                    ln = e.fields[1]
                    total = bv(1, 64)
                    for b in self.text + [x for cb in self.comments for x in cb]:
                        total = total + z3.If(b == 0x0a, bv(1, 64), bv(0, 64))
                    self.require(ex, z3.And(z3.UGE(ln.e, 1), z3.ULE(ln.e, total)), 'error names a line outside the document')
        if rs.variant == 'Ok':
            self.require(ex, rl.variant == 'Ok' and len(wl) == 0, 'strict accepts a document that lenient rejects or warns about')
            if self.aspect == 'c08rel':
                return           # documents beyond the reference reader (mixed content): the strict/lenient relation only
            okref, tree = self.reference(ex)
            self.require(ex, okref, 'strict loading accepts a document that violates the schema (unknown / repeated / version-foreign sub-element, missing SHORT-NAME, character content, nesting, trailing data)')
        else:
            if rl.variant == 'Ok':
                self.require(ex, len(wl) > 0, 'lenient silently accepts a document that strict rejects')
                if wl:
                    se = rs.fields[0]
                    if se.variant == 'ParserError' and wl[0].variant == 'ParserError':
                        self.require(ex, se.fields[2].variant == wl[0].fields[2].variant, f'strict error ({se.fields[2].variant}) is not the first lenient warning ({wl[0].fields[2].variant})')
                    else:
                        self.require(ex, False, 'strict error is not the first lenient warning')


VALID_DOCS = [
    [10],
    [0, 1, 10],
    [0, 2, 4, 8, 5, 3, 1, 10],
    [9, 0, 9, 2, 4, 8, 5, 3, 1, 10],
    [0, 2, 4, 8, 5, 6, 8, 7, 3, 1, 10],
    [0, 2, 4, 8, 5, 3, 2, 4, 8, 5, 3, 1, 10],
    [0, 2, 4, 8, 5, 0, 2, 4, 8, 5, 3, 1, 3, 1, 10],
    # invalid seeds (their single-token neighbourhoods are explored too)
    [0, 2, 4, 8, 5, 4, 8, 5, 3, 1, 10],          # SHORT-NAME twice
    [0, 2, 4, 8, 5, 6, 8, 7, 6, 8, 7, 3, 1, 10],  # CATEGORY twice
    [0, 1, 0, 1, 10],                             # AR-PACKAGES twice
    [0, 2, 6, 8, 7, 3, 1, 10],                    # SHORT-NAME missing
    [0, 2, 4, 8, 9, 8, 5, 3, 1, 10],              # a comment inside the text of a character element
]


@register
class ParseElementDocs(ParseElementDoc):
    """all token sequences of length exactly `length` over MINI_TOKENS (partition i of k by sequence number)"""
    length = 3
    part = None
    base = None          # index into VALID_DOCS: instead of all sequences of one length, all single-token edits of that valid document

    children = None      # k: instead, all sequences of exactly k children of one AR-PACKAGE, each child one of CHILD_UNITS
    CHILD_UNITS = [[4, 8, 5], [6, 8, 7], [0, 1], [9], [8], [4, 5]]   # SHORT-NAME, CATEGORY, empty AR-PACKAGES, comment, stray text, SHORT-NAME without text

    mixed = None         # k: DESC > L-2 with ALL sequences of exactly k items, each one of MIXED_UNITS
    mixed_base = None    # 0: the seed document MIXED_SEED and ALL its single-token edits over the extended token set
    MIXED_UNITS = [[TK_TEXT], [TK_BR], [TK_SUP, TK_TEXT, TK_SUP_END], [TK_COMMENT]]
    MIXED_SEED = [0, 2, 4, 8, 5, TK_DESC, TK_L2, 8, TK_BR, 8, TK_L2_END, TK_DESC_END, 3, 1, 10]

    def sequences(self):
        import itertools
        if self.mixed is not None:
            for combo in itertools.product(self.MIXED_UNITS, repeat=self.mixed):
                yield tuple([0, 2, 4, 8, 5, TK_DESC, TK_L2] + [t for u in combo for t in u] + [TK_L2_END, TK_DESC_END, 3, 1, 10])
            return
        if self.mixed_base is not None:
            doc = list(self.MIXED_SEED)
            n = len(ALL_TOKENS)
            yield tuple(doc)
            for i in range(len(doc)):
                yield tuple(doc[:i] + doc[i + 1:])
                yield tuple(doc[:i] + [doc[i]] + doc[i:])
                for t in range(n):
                    if t != doc[i]:
                        yield tuple(doc[:i] + [t] + doc[i + 1:])
            for i in range(len(doc) + 1):
                for t in range(n):
                    yield tuple(doc[:i] + [t] + doc[i:])
            return
        if self.children is not None:
            for combo in itertools.product(self.CHILD_UNITS, repeat=self.children):
                yield tuple([0, 2] + [t for u in combo for t in u] + [3, 1, 10])
            return
        if self.base is None:
            yield from itertools.product(range(len(MINI_TOKENS)), repeat=self.length)
            return
        doc = VALID_DOCS[self.base]
        yield tuple(doc)
        n = len(MINI_TOKENS)
        for i in range(len(doc)):
            yield tuple(doc[:i] + doc[i + 1:])                       # delete
            yield tuple(doc[:i] + [doc[i]] + doc[i:])                # duplicate
            for t in range(n):
                if t != doc[i]:
                    yield tuple(doc[:i] + [t] + doc[i + 1:])         # replace
        for i in range(len(doc) + 1):
            for t in range(n):
                yield tuple(doc[:i] + [t] + doc[i:])                 # insert

    def execute(self, prog, known=()):
        import time
        t0 = time.time()
        total = None
        nseq = 0
        for num, seq in enumerate(self.sequences()):
            if self.part is not None and num % self.part[1] != self.part[0]:
                continue
            self.tokens = list(seq)
            r = E2Harness.execute(self, prog, known)
            nseq += 1
            if total is None:
                total = r
            else:
                for k2, v in r['stats'].items():
                    if isinstance(v, (int, float)):
                        total['stats'][k2] = total['stats'].get(k2, 0) + v
                total['functions_executed'] = sorted(set(total['functions_executed']) | set(r['functions_executed']))
                total['models_used'] = sorted(set(total['models_used']) | set(r['models_used']))
            if len(self.violations) >= 8:
                break
        total['violations'] = self.violations
        total['inconclusive'] = sorted(set(self.inconclusive))[:10]
        total['covers'] = dict(self.covers, sequences=nseq)
        total['status'] = 'fail' if self.violations else ('inconclusive' if self.inconclusive else 'pass')
        total['stats']['wall_s'] = round(time.time() - t0, 2)
        total['hang'] = getattr(self, 'hang', False)
        return total
