"""Models of the core/alloc/std (and autosar-data-specification table lookup) functions that the executed MIR calls.

Each model is a short re-statement of the documented behaviour of one library function over the executor's values
(concrete shapes, symbolic data). They are part of the trusted base of engine E2 and are validated by running the same inputs
through the native build (translator validation, tools in checks/e2_validate).
"""
import hashlib
import re
import z3
from mirexec import (I, F, Agg, Slice, Str, VecV, Cell, Ref, ElemRef, Closure, Opaque, Iter, UNIT, Panic, Unsupported,
                     usize, mk_int, bv, str_slice, lit_bytes, INT_TYPES)

STD_ENUMS = {
    'Option': {'None': 0, 'Some': 1},
    'Result': {'Ok': 0, 'Err': 1},
    'Cow': {'Borrowed': 0, 'Owned': 1},
    'ControlFlow': {'Continue': 0, 'Break': 1},
    'Ordering': {'Less': -1, 'Equal': 0, 'Greater': 1},
}
DISCR_BITS = {'Ordering': 8}


def some(v):
    return Agg('Option', 'Some', [v])


NONE = lambda: Agg('Option', 'None', [])


def ok(v):
    return Agg('Result', 'Ok', [v])


def err(v):
    return Agg('Result', 'Err', [v])


def ordering(name):
    return Agg('Ordering', name, [])


def as_bytes_list(ex, v):
    """byte terms of a &str / &[u8] / String / &String / Cow ..."""
    if isinstance(v, (Ref, ElemRef)):
        v = ex.deref(v)
    if isinstance(v, Slice):
        return v.items()
    if isinstance(v, Str):
        return list(v.b)
    if isinstance(v, Agg) and v.ty == 'Cow':
        return as_bytes_list(ex, v.fields[0])
    if isinstance(v, Agg) and v.ty == 'array':
        return [x.e for x in v.fields]
    raise Unsupported(f'not a byte string: {v!r}')


def to_slice(ex, v, is_str=True):
    b = as_bytes_list(ex, v)
    return Slice(b, 0, len(b), is_str)


def bytes_eq(a, b):
    if len(a) != len(b):
        return False
    if not a:
        return True
    return z3.simplify(z3.And(*[x == y for x, y in zip(a, b)]))


def lex_lt(a, b):
    """a < b for byte strings (lexicographic, unsigned bytes)"""
    n = min(len(a), len(b))
    res = z3.BoolVal(len(a) < len(b))
    for i in reversed(range(n)):
        res = z3.If(z3.ULT(a[i], b[i]), True, z3.If(z3.UGT(a[i], b[i]), False, res))
    return z3.simplify(res)


def is_ws(b):
    return z3.Or(b == 0x20, b == 0x09, b == 0x0a, b == 0x0c, b == 0x0d)


def is_digit(b):
    return z3.And(z3.UGE(b, 0x30), z3.ULE(b, 0x39))


def is_alpha(b):
    return z3.Or(z3.And(z3.UGE(b, 0x41), z3.ULE(b, 0x5a)), z3.And(z3.UGE(b, 0x61), z3.ULE(b, 0x7a)))


def is_hexdigit(b):
    return z3.Or(is_digit(b), z3.And(z3.UGE(b, 0x41), z3.ULE(b, 0x46)), z3.And(z3.UGE(b, 0x61), z3.ULE(b, 0x66)))


def cmp3(ex, lt, eq):
    if ex.decide(lt):
        return ordering('Less')
    if ex.decide(eq):
        return ordering('Equal')
    return ordering('Greater')


def check_char_boundary(ex, sl, idx):
    if idx == 0 or idx == sl.len:
        return
    if idx > sl.len:
        raise Panic('str index out of range')
    b = sl.buf[sl.off + idx]
    if ex.decide(z3.And(z3.UGE(b, 0x80), z3.ULT(b, 0xC0))):
        raise Panic('byte index is not a char boundary')


def encode_utf8(ex, ch):
    """ch: I (32 bit). returns list of byte terms (forks on the encoded length when symbolic)"""
    c = ch.e
    def x8(e):
        return z3.simplify(z3.Extract(7, 0, e))
    if ex.decide(z3.ULT(c, 0x80)):
        return [x8(c)]
    if ex.decide(z3.ULT(c, 0x800)):
        return [x8(z3.LShR(c, 6) | 0xC0), x8((c & 0x3F) | 0x80)]
    if ex.decide(z3.ULT(c, 0x10000)):
        return [x8(z3.LShR(c, 12) | 0xE0), x8((z3.LShR(c, 6) & 0x3F) | 0x80), x8((c & 0x3F) | 0x80)]
    return [x8(z3.LShR(c, 18) | 0xF0), x8((z3.LShR(c, 12) & 0x3F) | 0x80), x8((z3.LShR(c, 6) & 0x3F) | 0x80), x8((c & 0x3F) | 0x80)]


def decode_utf8_at(ex, buf, pos, end):
    """decode one scalar of a VALID utf-8 string; returns (I char, width)"""
    b0 = buf[pos]
    z = lambda e: z3.ZeroExt(24, e)
    if ex.decide(z3.ULT(b0, 0x80)):
        return I(z3.simplify(z(b0)), False, 'char'), 1
    def cont(k):
        if pos + k >= end:
            raise Unsupported('truncated utf-8 in a str value (harness must provide valid utf-8)')
        return z(buf[pos + k]) & 0x3F
    if ex.decide(z3.ULT(b0, 0xE0)):
        return I(z3.simplify(((z(b0) & 0x1F) << 6) | cont(1)), False, 'char'), 2
    if ex.decide(z3.ULT(b0, 0xF0)):
        return I(z3.simplify(((z(b0) & 0x0F) << 12) | (cont(1) << 6) | cont(2)), False, 'char'), 3
    return I(z3.simplify(((z(b0) & 0x07) << 18) | (cont(1) << 12) | (cont(2) << 6) | cont(3)), False, 'char'), 4


def utf8_scan(ex, b):
    """core::str::lossy::Utf8Chunks over symbolic bytes of concrete length: returns a list of ('ok', [bytes]) / ('bad', k)
    segments exactly as the standard library delimits them (maximal valid runs; each ill-formed sequence is the maximal
    prefix of a well-formed one, 1..3 bytes). Forks on the byte classes."""
    n = len(b)
    rng = lambda x, lo, hi: z3.And(z3.UGE(x, lo), z3.ULE(x, hi))
    segs = []
    cur = []
    i = 0
    while i < n:
        b0 = b[i]
        if ex.decide(z3.ULT(b0, 0x80)):
            cur.append(b0)
            i += 1
            continue
        j = i + 1
        good = False

        def nxt(lo, hi):
            return j < n and ex.decide(rng(b[j], lo, hi))
        if ex.decide(rng(b0, 0xC2, 0xDF)):
            if nxt(0x80, 0xBF):
                j += 1
                good = True
        elif ex.decide(rng(b0, 0xE0, 0xEF)):
            if ex.decide(b0 == 0xE0):
                lo, hi = 0xA0, 0xBF
            elif ex.decide(b0 == 0xED):
                lo, hi = 0x80, 0x9F
            else:
                lo, hi = 0x80, 0xBF
            if nxt(lo, hi):
                j += 1
                if nxt(0x80, 0xBF):
                    j += 1
                    good = True
        elif ex.decide(rng(b0, 0xF0, 0xF4)):
            if ex.decide(b0 == 0xF0):
                lo, hi = 0x90, 0xBF
            elif ex.decide(b0 == 0xF4):
                lo, hi = 0x80, 0x8F
            else:
                lo, hi = 0x80, 0xBF
            if nxt(lo, hi):
                j += 1
                if nxt(0x80, 0xBF):
                    j += 1
                    if nxt(0x80, 0xBF):
                        j += 1
                        good = True
        if good:
            cur.extend(b[i:j])
        else:
            if cur:
                segs.append(('ok', cur))
                cur = []
            segs.append(('bad', j - i))
        i = j
    if cur:
        segs.append(('ok', cur))
    return segs


def utf8_valid(ex, b):
    return all(k == 'ok' for k, _ in utf8_scan(ex, b))


def digit_value(b, radix):
    """(is_digit Bool, value as 8-bit term) like char::to_digit for ASCII"""
    if radix <= 10:
        okd = z3.And(z3.UGE(b, 0x30), z3.ULT(b, 0x30 + radix))
        return okd, b - 0x30
    lo = z3.And(z3.UGE(b, 0x61), z3.ULT(b, 0x61 + radix - 10))
    up = z3.And(z3.UGE(b, 0x41), z3.ULT(b, 0x41 + radix - 10))
    okd = z3.Or(is_digit(b), lo, up)
    return okd, z3.If(is_digit(b), b - 0x30, z3.If(lo, b - 0x61 + 10, b - 0x41 + 10))


def from_str_radix(ex, bytes_, radix, ty):
    """core::num::<impl uN/iN>::from_str_radix: Ok(value) / Err(ParseIntError) (forks per digit validity and on overflow)"""
    bits, signed = INT_TYPES[ty]
    b = list(bytes_)
    if not b:
        return err(Opaque('ParseIntError::Empty'))
    neg = False
    if len(b) == 1:
        # a lone sign is InvalidDigit
        if ex.decide(z3.Or(b[0] == 0x2b, b[0] == 0x2d)):
            return err(Opaque('ParseIntError::InvalidDigit'))
    if ex.decide(b[0] == 0x2b):
        b = b[1:]
    elif signed and ex.decide(b[0] == 0x2d):
        neg = True
        b = b[1:]
    wide = bits + 8 + 4 * len(b)
    acc = bv(0, wide)
    shift = {2: 1, 4: 2, 8: 3, 16: 4, 32: 5}.get(radix)
    for x in b:
        okd, dv = digit_value(x, radix)
        if not ex.decide(okd):
            return err(Opaque('ParseIntError::InvalidDigit'))
        acc = ((acc << shift) | z3.ZeroExt(wide - 8, dv)) if shift else (acc * radix + z3.ZeroExt(wide - 8, dv))
    acc = z3.simplify(acc)
    biggest = radix ** len(b) - 1          # largest value k digits can denote: no solver needed when it cannot overflow
    if neg:
        lim = 1 << (bits - 1)
        if biggest > lim and ex.decide(z3.UGT(acc, bv(lim, wide))):
            return err(Opaque('ParseIntError::NegOverflow'))
        val = z3.simplify(-z3.Extract(bits - 1, 0, acc))
    else:
        lim = (1 << (bits - 1)) - 1 if signed else (1 << bits) - 1
        if biggest > lim and ex.decide(z3.UGT(acc, bv(lim, wide))):
            return err(Opaque('ParseIntError::PosOverflow'))
        val = z3.simplify(z3.Extract(bits - 1, 0, acc))
    return ok(I(val, signed, ty))


def sym_hash(terms):
    return hashlib.sha1((' '.join(t.sexpr() for t in terms)).encode()).hexdigest()[:10]


class Models:
    def __init__(self):
        self.exact = {}
        self.rx = []
        self.last_key = None
        self.prefer = []
        self.consts = {}
        self._enum_names = None
        self.register_all()

    # ---- registry -----------------------------------------------------------------------------------
    def add(self, pattern, fn, prefer=False):
        self.rx.append((re.compile(pattern), fn, pattern))
        if prefer:
            self.prefer.append(re.compile(pattern))

    def prefer_model(self, callee):
        return any(r.search(callee) for r in self.prefer)

    def lookup(self, callee):
        for r, fn, pat in self.rx:
            if r.search(callee):
                self.last_key = pat
                return fn
        return None

    def const(self, txt):
        return self.consts.get(txt)

    def enum_names(self, prog):
        if self._enum_names is None or len(self._enum_names) != len(prog.enums) + len(STD_ENUMS):
            self._enum_names = set(STD_ENUMS) | set(prog.enums)
        return self._enum_names

    def discr(self, prog, ty, variant):
        if ty in STD_ENUMS:
            return STD_ENUMS[ty][variant]
        if ty in prog.enums and variant in prog.enums[ty]:
            return prog.enums[ty][variant]
        raise Unsupported(f'unknown enum variant {ty}::{variant}')

    def transmute(self, ex, v, ty):
        return v

    # ---- the models ---------------------------------------------------------------------------------
    def register_all(self):
        A = self.add
        # ---------------- str / slices ----------------
        A(r'^core::str::<impl str>::len$', lambda ex, c, a: usize(to_slice(ex, a[0]).len))
        A(r'^std::string::String::len$', lambda ex, c, a: usize(len(as_bytes_list(ex, a[0]))))
        A(r'^core::str::<impl str>::as_bytes$', lambda ex, c, a: to_slice(ex, a[0], False))
        A(r'^std::string::String::as_bytes$', lambda ex, c, a: to_slice(ex, a[0], False))
        A(r'^std::string::String::as_str$', lambda ex, c, a: to_slice(ex, a[0], True))
        A(r'^<std::string::String as Deref>::deref$', lambda ex, c, a: to_slice(ex, a[0], True))
        A(r'^<std::string::String as AsRef<str>>::as_ref$', lambda ex, c, a: to_slice(ex, a[0], True))
        A(r'^core::slice::<impl \[u8\]>::is_empty$', lambda ex, c, a: to_slice(ex, a[0]).len == 0)
        A(r'^core::slice::<impl \[.*\]>::len$', lambda ex, c, a: usize(ex.length_of(a[0])))
        A(r'^core::str::<impl str>::is_empty$', lambda ex, c, a: to_slice(ex, a[0]).len == 0)
        A(r'^core::str::<impl str>::contains::<char>$', self.m_contains_char)
        A(r'^core::str::<impl str>::contains::<\[char; \d+\]>$', self.m_contains_chars)
        A(r'^core::str::<impl str>::find::<char>$', self.m_find_char)
        A(r'^core::str::<impl str>::find::<\[char; \d+\]>$', self.m_find_chars)
        A(r'^<(std::str::)?Chars<\'_> as Iterator>::skip$', self.m_chars_skip)
        A(r'^<(std::iter::)?Skip<(std::str::)?Chars<\'_>> as Iterator>::next$', self.m_chars_next)
        A(r'^<(std::iter::)?Skip<(std::str::)?Chars<\'_>> as IntoIterator>::into_iter$', lambda ex, c, a: a[0])
        A(r'^core::str::<impl str>::contains::<&str>$', self.m_contains_str)
        A(r'^(alloc|std)::str::<impl str>::replace::<(&str|&std::string::String)>$', self.m_str_replace)
        A(r'^std::option::Option::<.*>::take$', self.m_opt_take)
        A(r'^std::option::Option::<.*>::is_some$', lambda ex, c, a: ex.deref(a[0]).variant == 'Some')
        A(r'^std::option::Option::<.*>::is_none$', lambda ex, c, a: ex.deref(a[0]).variant == 'None')
        A(r'^core::str::<impl str>::starts_with::<&str>$', self.m_starts_with)
        A(r'^core::str::<impl str>::strip_prefix::<&str>$', self.m_strip_prefix)
        A(r'^core::str::<impl str>::strip_prefix::<char>$', self.m_strip_prefix)
        A(r'^core::str::<impl str>::strip_prefix::<&std::string::String>$', self.m_strip_prefix)
        A(r'^core::str::<impl str>::strip_suffix::<(&str|&std::string::String)>$', self.m_strip_suffix)
        A(r'^core::str::<impl str>::starts_with::<char>$', self.m_starts_with_char)
        A(r'^core::str::<impl str>::bytes$', lambda ex, c, a: Iter('bytes', to_slice(ex, a[0]), 0))
        A(r'^<std::str::Bytes<\'_> as Iterator>::(all|any)::<', self.m_bytes_all_any)
        A(r'^core::str::<impl str>::trim(_start|_end)?$', self.m_str_trim)
        A(r'^core::str::<impl str>::chars$', lambda ex, c, a: Iter('chars', to_slice(ex, a[0]), 0))
        A(r'^<&smallvec::SmallVec<.*> as IntoIterator>::into_iter$', lambda ex, c, a: Iter('slice', self.any_slice(ex, a[0]), 0))
        A(r'^<&Vec<.*> as IntoIterator>::into_iter$', lambda ex, c, a: Iter('slice', self.any_slice(ex, a[0]), 0))
        A(r'^<.* as IntoIterator>::into_iter$', lambda ex, c, a: a[0])
        A(r'^<std::ops::Range<usize> as Iterator>::next$', self.m_range_next)
        A(r'^<Chars<\'_> as Iterator>::next$', self.m_chars_next)
        A(r'^<(?:Chars<\'_>|std::str::Bytes<\'_>|(?:std|core)::slice::Iter<\'_, .*>) as Iterator>::try_fold::<', self.m_try_fold)
        A(r'^core::str::<impl str>::split::<char>$', lambda ex, c, a: Iter('split', to_slice(ex, a[0]), 0, dict(ch=a[1], done=False)))
        A(r'^<std::str::Split<\'_, char> as Iterator>::next$', self.m_split_next)
        A(r'^<str as std::ops::Index<.*>>::index$', self.m_index_range)
        A(r'^<\[u8\] as (?:std::ops::|core::ops::)?Index<.*>>::index$', self.m_index_range)
        A(r'^core::slice::<impl \[u8\]>::(starts_with|ends_with)$', self.m_bytes_starts_ends)
        A(r'^<(?:std|core)::slice::Split<.*> as Iterator>::next$', self.m_bsplit_next)
        A(r'^<(?:std|core)::slice::Iter<\'_, u8> as Iterator>::filter::<', lambda ex, c, a: Iter('filter', a[0].slice, a[0].pos, dict(pred=a[1])))
        A(r'^<(?:std|core)::iter::Filter<.*> as Iterator>::count$', self.m_filter_count)
        A(r'^core::slice::<impl \[u8\]>::split::<', lambda ex, c, a: Iter('splitp', self.any_slice(ex, a[0]), 0, dict(pred=a[1], done=False)))
        A(r'^<(?:std|core)::slice::Split<.*> as Iterator>::collect::<Vec<', self.m_split_collect)
        A(r'^<(?:std|core)::slice::Split<.*> as Iterator>::(all|any)::<', self.m_split_all_any)
        A(r'^<(?:std|core)::slice::Split<.*> as Iterator>::count$', lambda ex, c, a: usize(len(self.m_split_collect(ex, c, a).items)))
        A(r'^Vec::<.*>::len$', lambda ex, c, a: usize(len(ex.deref(a[0]).items)))
        A(r'^<Vec<std::string::String> as Deref(Mut)?>::deref(_mut)?$', lambda ex, c, a: a[0])
        A(r'^<Vec<.*> as Deref>::deref$', lambda ex, c, a: Slice(list(ex.deref(a[0]).items), 0, len(ex.deref(a[0]).items), False))
        A(r'^core::slice::<impl \[.*\]>::iter$', lambda ex, c, a: Iter('slice', self.any_slice(ex, a[0]), 0))
        A(r'^<(?:std|core)::slice::Iter<\'_, .*> as Iterator>::enumerate$', lambda ex, c, a: Iter('enumerate', a[0].slice, a[0].pos, dict(base=a[0].pos)))
        A(r'^<(?:std::iter::|core::iter::)?(?:adapters::enumerate::)?Enumerate<.*> as Iterator>::(all|any|next|position|find)(::<.*)?$', self.m_enumerate_ops)
        A(r'^<(?:std|core)::slice::Iter<\'_, .*> as Iterator>::position::<', self.m_iter_position)
        A(r'^<(?:std|core)::slice::Iter<\'_, .*> as Iterator>::all::<', self.m_iter_all)
        A(r'^<(?:std|core)::slice::Iter<\'_, .*> as Iterator>::any::<', self.m_iter_any)
        A(r'^<(?:std|core)::slice::Iter<\'_, .*> as Iterator>::find::<', self.m_iter_find)
        A(r'^<(?:std|core)::slice::Iter<\'_, .*> as Iterator>::next$', self.m_iter_next)
        A(r'^core::num::<impl u8>::is_ascii_whitespace$', lambda ex, c, a: z3.simplify(is_ws(ex.deref(a[0]).e)))
        A(r'^core::num::<impl u8>::is_ascii_digit$', lambda ex, c, a: z3.simplify(is_digit(ex.deref(a[0]).e)))
        A(r'^core::num::<impl u8>::is_ascii_alphabetic$', lambda ex, c, a: z3.simplify(is_alpha(ex.deref(a[0]).e)))
        A(r'^core::num::<impl u8>::is_ascii_alphanumeric$', lambda ex, c, a: z3.simplify(z3.Or(is_alpha(ex.deref(a[0]).e), is_digit(ex.deref(a[0]).e))))
        A(r'^core::num::<impl u8>::is_ascii_uppercase$', lambda ex, c, a: z3.simplify(z3.And(z3.UGE(ex.deref(a[0]).e, 0x41), z3.ULE(ex.deref(a[0]).e, 0x5a))))
        A(r'^core::num::<impl u8>::is_ascii_lowercase$', lambda ex, c, a: z3.simplify(z3.And(z3.UGE(ex.deref(a[0]).e, 0x61), z3.ULE(ex.deref(a[0]).e, 0x7a))))
        A(r'^core::num::<impl u8>::is_ascii_hexdigit$', lambda ex, c, a: z3.simplify(is_hexdigit(ex.deref(a[0]).e)))
        A(r'^core::char::methods::<impl char>::is_ascii_digit$', lambda ex, c, a: z3.simplify(z3.And(z3.UGE(ex.deref(a[0]).e, 0x30), z3.ULE(ex.deref(a[0]).e, 0x39))))
        # ---------------- equality / ordering ----------------
        A(r'^<str as PartialEq>::eq$', lambda ex, c, a: bytes_eq(as_bytes_list(ex, a[0]), as_bytes_list(ex, a[1])))
        A(r'^<&str as PartialEq>::eq$', lambda ex, c, a: bytes_eq(as_bytes_list(ex, ex.deref(a[0])), as_bytes_list(ex, ex.deref(a[1]))))
        A(r'^<&str as PartialEq>::ne$', lambda ex, c, a: self.neg(bytes_eq(as_bytes_list(ex, ex.deref(a[0])), as_bytes_list(ex, ex.deref(a[1])))))
        A(r'^<std::string::String as PartialEq<&str>>::eq$', lambda ex, c, a: bytes_eq(as_bytes_list(ex, a[0]), as_bytes_list(ex, ex.deref(a[1]))))
        A(r'^<std::string::String as PartialEq<str>>::eq$', lambda ex, c, a: bytes_eq(as_bytes_list(ex, a[0]), as_bytes_list(ex, a[1])))
        A(r'^<std::string::String as PartialEq>::eq$', lambda ex, c, a: bytes_eq(as_bytes_list(ex, a[0]), as_bytes_list(ex, a[1])))
        A(r'^<&std::string::String as PartialEq<&str>>::eq$', lambda ex, c, a: bytes_eq(as_bytes_list(ex, ex.deref(a[0])), as_bytes_list(ex, ex.deref(a[1]))))
        A(r'^<\[u8\] as PartialEq>::(eq|ne)$', lambda ex, c, a: (bytes_eq if c.endswith('eq') else (lambda x, y: self.neg(bytes_eq(x, y))))(as_bytes_list(ex, a[0]), as_bytes_list(ex, a[1])))
        A(r'^<&\[u8\] as PartialEq(<.*>)?>::(eq|ne)$', self.m_ref_bytes_eq)
        A(r'^<\[u8\] as PartialEq<\[u8; \d+\]>>::(eq|ne)$', lambda ex, c, a: (bytes_eq if c.endswith('eq') else (lambda x, y: self.neg(bytes_eq(x, y))))(as_bytes_list(ex, a[0]), as_bytes_list(ex, a[1])))
        A(r'^<&u8 as PartialEq>::eq$', lambda ex, c, a: z3.simplify(ex.deref(ex.deref(a[0])).e == ex.deref(ex.deref(a[1])).e))
        A(r'^<autosar_data_specification::(EnumItem|AttributeName|ElementName|AutosarVersion) as PartialEq>::(eq|ne)$', self.m_int_enum_eq)
        A(r'^<(str|std::string::String) as Ord>::cmp$', self.m_str_cmp)
        A(r'^<(u64|u32|usize|u8|u16) as Ord>::cmp$', lambda ex, c, a: cmp3(ex, z3.ULT(ex.deref(a[0]).e, ex.deref(a[1]).e), ex.deref(a[0]).e == ex.deref(a[1]).e))
        A(r'^<(i64|i32|isize|i8|i16) as Ord>::cmp$', lambda ex, c, a: cmp3(ex, ex.deref(a[0]).e < ex.deref(a[1]).e, ex.deref(a[0]).e == ex.deref(a[1]).e))
        A(r'^<(i64|i32|isize|i8|i16) as PartialOrd>::partial_cmp$', lambda ex, c, a: some(cmp3(ex, ex.deref(a[0]).e < ex.deref(a[1]).e, ex.deref(a[0]).e == ex.deref(a[1]).e)))
        A(r'^<(u64|u32|usize|u8|u16) as PartialOrd>::partial_cmp$', lambda ex, c, a: some(cmp3(ex, z3.ULT(ex.deref(a[0]).e, ex.deref(a[1]).e), ex.deref(a[0]).e == ex.deref(a[1]).e)))
        A(r'^<f64 as PartialOrd>::partial_cmp$', self.m_f64_partial_cmp)
        A(r'^std::cmp::Ordering::then$', lambda ex, c, a: a[1] if a[0].variant == 'Equal' else a[0])
        A(r'^std::cmp::Ordering::then_with::<', lambda ex, c, a: ex.call_closure(a[1], []) if a[0].variant == 'Equal' else a[0])
        A(r'^std::cmp::Ordering::is_(eq|ne|lt|gt|le|ge)$', lambda ex, c, a: {'eq': a[0].variant == 'Equal', 'ne': a[0].variant != 'Equal', 'lt': a[0].variant == 'Less', 'gt': a[0].variant == 'Greater', 'le': a[0].variant != 'Greater', 'ge': a[0].variant != 'Less'}[re.search(r'is_(\w+)$', c).group(1)])
        A(r'^std::cmp::Ordering::reverse$', lambda ex, c, a: ordering({'Less': 'Greater', 'Greater': 'Less', 'Equal': 'Equal'}[a[0].variant]))
        A(r'^<u32 as BitAnd<&u32>>::bitand$', lambda ex, c, a: I(z3.simplify(a[0].e & ex.deref(a[1]).e), False, 'u32'))
        # ---------------- integer helpers (hashfunc and friends) ----------------
        A(r'^<&\[u8\] as TryInto<\[u8; (\d+)\]>>::try_into$', self.m_try_into_array)
        A(r'^core::num::<impl (u16|u32|u64)>::from_(ne|le)_bytes$', self.m_from_le_bytes)
        A(r'^<(u16|u32|u64|usize) as From<(u8|u16|u32)>>::from$', lambda ex, c, a: I(z3.simplify(z3.ZeroExt(INT_TYPES[re.match(r'^<(\w+) ', c).group(1)][0] - a[0].bits, a[0].e)), False, re.match(r'^<(\w+) ', c).group(1)))
        A(r'^core::num::<impl (u8|u16|u32|u64|usize)>::rotate_left$', lambda ex, c, a: I(z3.simplify(z3.RotateLeft(a[0].e, z3.ZeroExt(a[0].bits - a[1].bits, a[1].e) if a[1].bits < a[0].bits else a[1].e)), False, a[0].ty))
        A(r'^<(u8|u16|u32|u64|usize) as BitXor>::bitxor$', lambda ex, c, a: I(z3.simplify(a[0].e ^ a[1].e), False, a[0].ty))
        A(r'^core::num::<impl (u8|u16|u32|u64|usize)>::wrapping_mul$', lambda ex, c, a: I(z3.simplify(a[0].e * a[1].e), False, a[0].ty))
        A(r'^core::num::<impl (u8|u16|u32|u64|usize)>::wrapping_add$', lambda ex, c, a: I(z3.simplify(a[0].e + a[1].e), False, a[0].ty))
        A(r'^core::num::<impl (u8|u16|u32|u64|usize)>::wrapping_sub$', lambda ex, c, a: I(z3.simplify(a[0].e - a[1].e), False, a[0].ty))
        A(r'^<T as Num>::from_str_radix$', self.m_t_from_str_radix)
        A(r'^<T as TryFrom<u64>>::try_from$', self.m_t_try_from)
        A(r'^<char as From<u8>>::from$', lambda ex, c, a: I(z3.simplify(z3.ZeroExt(24, a[0].e)), False, 'char'))
        A(r'^<std::str::Bytes<\'_> as Iterator>::next$', self.m_bytes_next)
        A(r'^core::slice::<impl \[.*\]>::binary_search_by::<', self.m_binary_search_by)
        A(r'^(?:core|std)::f64::<impl f64>::is_infinite$', lambda ex, c, a: z3.fpIsInf(a[0].e))
        A(r'^(?:core|std)::f64::<impl f64>::is_nan$', lambda ex, c, a: z3.fpIsNaN(a[0].e))
        A(r'^(?:core|std)::f64::<impl f64>::is_finite$', lambda ex, c, a: z3.Not(z3.Or(z3.fpIsInf(a[0].e), z3.fpIsNaN(a[0].e))))
        A(r'^(?:core|std)::f64::<impl f64>::is_sign_negative$', lambda ex, c, a: z3.fpIsNegative(a[0].e))
        # ---------------- String building ----------------
        A(r'^std::string::String::with_capacity$', lambda ex, c, a: Str())
        A(r'^std::string::String::new$', lambda ex, c, a: Str())
        A(r'^std::string::String::push_str$', self.m_push_str)
        A(r'^std::string::String::push$', self.m_push)
        A(r'^<str as ToOwned>::to_owned$', lambda ex, c, a: Str(as_bytes_list(ex, a[0])))
        A(r'^<(str|std::string::String|Cow<\'_, str>) as ToString>::to_string$', lambda ex, c, a: Str(as_bytes_list(ex, a[0])))
        A(r'^<std::string::String as Clone>::clone$', lambda ex, c, a: Str(as_bytes_list(ex, a[0])))
        A(r'^<std::string::String as From<&str>>::from$', lambda ex, c, a: Str(as_bytes_list(ex, a[0])))
        A(r"^<Cow<'_, str> as Into<std::string::String>>::into$", lambda ex, c, a: Str(as_bytes_list(ex, a[0].fields[0])))
        A(r"^<Cow<'_, str> as From<std::string::String>>::from$", lambda ex, c, a: Agg('Cow', 'Owned', [a[0]]))
        A(r"^<Cow<'_, str> as From<&str>>::from$", lambda ex, c, a: Agg('Cow', 'Borrowed', [a[0]]))
        A(r"^<Cow<'_, str> as AsRef<str>>::as_ref$", lambda ex, c, a: to_slice(ex, ex.deref(a[0]).fields[0], True))
        A(r'^<Cow<\'_, str> as Deref>::deref$', lambda ex, c, a: to_slice(ex, ex.deref(a[0]).fields[0], True))
        A(r'^<Cow<\'_, str> as From<&str>>::from$', lambda ex, c, a: Agg('Cow', 'Borrowed', [a[0]]))
        A(r'^Cow::<\'_, str>::into_owned$', lambda ex, c, a: Str(as_bytes_list(ex, a[0].fields[0])))
        A(r'^from_utf8$|^core::str::from_utf8$|^std::str::from_utf8$', self.m_from_utf8)
        A(r'^std::string::String::from_utf8_lossy$', self.m_from_utf8_lossy)
        A(r'^must_use::<', lambda ex, c, a: a[0])
        # ---------------- numbers ----------------
        A(r'^core::num::<impl (u8|u16|u32|u64|usize|i8|i16|i32|i64)>::from_str_radix$',
          lambda ex, c, a: from_str_radix(ex, as_bytes_list(ex, a[0]), ex.concretize(a[1]), re.search(r'impl (\w+)>', c).group(1)))
        A(r'^<(u8|u16|u32|u64|usize|i8|i16|i32|i64) as FromStr>::from_str$',
          lambda ex, c, a: from_str_radix(ex, as_bytes_list(ex, a[0]), 10, re.match(r'^<(\w+) ', c).group(1)))
        A(r'^core::str::<impl str>::parse::<(u8|u16|u32|u64|usize|i8|i16|i32|i64)>$',
          lambda ex, c, a: from_str_radix(ex, as_bytes_list(ex, a[0]), 10, re.search(r'parse::<(\w+)>', c).group(1)))
        A(r'^core::str::<impl str>::parse::<f64>$', self.m_parse_f64)
        A(r'^char::methods::<impl char>::from_u32$|^core::char::methods::<impl char>::from_u32$', self.m_char_from_u32)
        A(r'^<(u64|f64) as ToString>::to_string$', self.m_num_to_string)
        # ---------------- Option / Result plumbing ----------------
        A(r'^std::option::Option::<.*>::unwrap_or$', lambda ex, c, a: a[0].fields[0] if a[0].variant == 'Some' else a[1])
        A(r'^std::option::Option::<.*>::unwrap$', self.m_unwrap)
        A(r'^std::option::Option::<.*>::expect$', self.m_unwrap)
        A(r'^std::option::Option::<.*>::is_some$', lambda ex, c, a: ex.deref(a[0]).variant == 'Some')
        A(r'^std::option::Option::<.*>::is_none$', lambda ex, c, a: ex.deref(a[0]).variant == 'None')
        A(r'^std::option::Option::<.*>::and_then::<', self.m_and_then)
        A(r'^std::option::Option::<.*>::ok_or_else::<', lambda ex, c, a: ok(a[0].fields[0]) if a[0].variant == 'Some' else err(ex.call_closure(a[1], [])))
        A(r'^std::option::Option::<.*>::map::<', lambda ex, c, a: some(ex.call_closure(a[1], [a[0].fields[0]])) if a[0].variant == 'Some' else a[0])
        A(r'^std::option::Option::<.*>::or_else::<', lambda ex, c, a: a[0] if a[0].variant == 'Some' else ex.call_closure(a[1], []))
        A(r'^std::option::Option::<.*>::or$', lambda ex, c, a: a[0] if a[0].variant == 'Some' else a[1])
        A(r'^std::option::Option::<.*>::unwrap_or_else::<', lambda ex, c, a: a[0].fields[0] if a[0].variant == 'Some' else ex.call_closure(a[1], []))
        A(r'^std::option::Option::<.*>::map_or::<', lambda ex, c, a: ex.call_closure(a[2], [a[0].fields[0]]) if a[0].variant == 'Some' else a[1])
        A(r'^std::option::Option::<.*>::is_some_and::<', lambda ex, c, a: ex.call_closure(a[1], [a[0].fields[0]]) if a[0].variant == 'Some' else False)
        A(r'^std::option::Option::<.*>::filter::<', self.m_opt_filter)
        A(r'^std::option::Option::<.*>::ok_or::<', lambda ex, c, a: ok(a[0].fields[0]) if a[0].variant == 'Some' else err(a[1]))
        A(r'^<(?:std::option::)?Option<.*> as Try>::branch$', lambda ex, c, a: Agg('ControlFlow', 'Continue', [a[0].fields[0]]) if a[0].variant == 'Some' else Agg('ControlFlow', 'Break', [NONE()]))
        A(r'^<(?:std::option::)?Option<.*> as FromResidual<.*>>::from_residual$', lambda ex, c, a: NONE())
        A(r'^(?:core::)?char::methods::<impl char>::to_digit$', self.m_char_to_digit)
        A(r'^(?:core::)?char::methods::<impl char>::is_ascii_digit$', lambda ex, c, a: z3.simplify(z3.And(z3.UGE(ex.deref(a[0]).e, 0x30), z3.ULE(ex.deref(a[0]).e, 0x39))))
        A(r'^Result::<.*>::ok$', lambda ex, c, a: some(a[0].fields[0]) if a[0].variant == 'Ok' else NONE())
        A(r'^Result::<.*>::is_ok$', lambda ex, c, a: ex.deref(a[0]).variant == 'Ok')
        A(r'^Result::<.*>::is_err$', lambda ex, c, a: ex.deref(a[0]).variant == 'Err')
        A(r'^Result::<.*>::map::<', lambda ex, c, a: ok(ex.call_closure(a[1], [a[0].fields[0]])) if a[0].variant == 'Ok' else a[0])
        A(r'^Result::<.*>::and_then::<', lambda ex, c, a: ex.call_closure(a[1], [a[0].fields[0]]) if a[0].variant == 'Ok' else a[0])
        A(r'^Result::<.*>::unwrap_or::<?', lambda ex, c, a: a[0].fields[0] if a[0].variant == 'Ok' else a[1])
        A(r'^Result::<.*>::map_err::<', lambda ex, c, a: a[0] if a[0].variant == 'Ok' else err(ex.call_closure(a[1], [a[0].fields[0]])))
        A(r'^Result::<.*>::unwrap$', self.m_unwrap)
        A(r'^<Result<.*> as Try>::branch$', lambda ex, c, a: Agg('ControlFlow', 'Continue', [a[0].fields[0]]) if a[0].variant == 'Ok' else Agg('ControlFlow', 'Break', [err(a[0].fields[0])]))
        A(r'^<Result<.*> as FromResidual<.*>>::from_residual$', lambda ex, c, a: err(a[0].fields[0]))
        # ---------------- single-threaded stand-ins for Arc / parking_lot (engine E2 has one thread, no scheduler) ----------------
        A(r'^<std::sync::Arc<.*> as Deref>::deref$', lambda ex, c, a: ex.deref(a[0]).fields[0])
        A(r'^<std::sync::Arc<.*> as Clone>::clone$', lambda ex, c, a: ex.deref(a[0]))
        A(r'^parking_lot::lock_api::RwLock::<.*>::(read|write)$', lambda ex, c, a: Agg('Guard', None, [Ref(a[0].cell, list(a[0].path) + [('f', 0)])]))
        A(r'^parking_lot::lock_api::RwLock::<.*>::try_(read|write)_for$', lambda ex, c, a: some(Agg('Guard', None, [Ref(a[0].cell, list(a[0].path) + [('f', 0)])])))
        A(r'^<parking_lot::lock_api::RwLock(Read|Write)Guard<.*> as Deref(Mut)?>::deref(_mut)?$', lambda ex, c, a: ex.deref(a[0]).fields[0])
        A(r'^Duration::from_millis$|^std::time::Duration::from_millis$', lambda ex, c, a: Opaque('Duration'))
        A(r'^<Element as Clone>::clone$', lambda ex, c, a: ex.deref(a[0]))
        self.add(r'^<&?(Weak)?Element as PartialEq>::(eq|ne)$', self.m_element_ptr_eq, prefer=True)   # pointer identity of the Arc / Weak
        A(r'^<std::option::Option<Element> as Clone>::clone$', lambda ex, c, a: ex.deref(a[0]))
        A(r'^<CharacterData as Clone>::clone$', self.m_clone_cdata)
        A(r'^<&smallvec::SmallVec<.*> as IntoIterator>::into_iter$', lambda ex, c, a: Iter('slice', self.any_slice(ex, a[0]), 0))
        A(r'^smallvec::SmallVec::<.*>::len$', lambda ex, c, a: usize(len(ex.deref(a[0]).items)))
        A(r'^smallvec::SmallVec::<.*>::is_empty$', lambda ex, c, a: len(ex.deref(a[0]).items) == 0)
        A(r'^core::slice::<impl \[.*\]>::first$', self.m_slice_first)
        A(r'^core::slice::<impl \[.*\]>::get::<usize>$', self.m_slice_get)
        A(r'^<smallvec::SmallVec<\[(\w+); \d+\]> as Ord>::cmp$', self.m_smallvec_cmp)
        A(r'^<std::cmp::Ordering as PartialEq>::(eq|ne)$', lambda ex, c, a: (ex.deref(a[0]).variant == ex.deref(a[1]).variant) == c.endswith('eq'))
        A(r'^<autosar_data_specification::ContentMode as PartialEq>::(eq|ne)$', lambda ex, c, a: (ex.deref(a[0]).variant == ex.deref(a[1]).variant) == c.endswith('eq'))
        # ---------------- containers that are only appended to / scanned ----------------
        A(r'^Vec::<.*>::push$', self.m_vec_push)
        A(r'^Vec::<.*>::new$', lambda ex, c, a: VecV())
        A(r'^Vec::<.*>::append$', self.m_vec_append)
        A(r'^Vec::<.*>::swap_remove$', self.m_vec_swap_remove)
        A(r'^<std::vec::IntoIter<.*> as Iterator>::next$', self.m_vec_into_iter_next)
        A(r'^core::slice::<impl \[std::string::String\]>::reverse$', self.m_strings_reverse)
        A(r'^std::slice::<impl \[std::string::String\]>::join::<&str>$', self.m_strings_join)
        A(r'^Vec::<(?!u8>).*>::is_empty$', lambda ex, c, a: len(ex.deref(a[0]).items) == 0)
        A(r'^Vec::<(?!u8>).*>::len$', lambda ex, c, a: usize(len(ex.deref(a[0]).items)))
        A(r'^<smallvec::SmallVec<.*> as std::ops::Index<usize>>::index$', self.m_smallvec_index)
        A(r'^<smallvec::SmallVec<.*> as (std::ops::)?IndexMut<usize>>::index_mut$', self.m_smallvec_index_mut)
        A(r'^<autosar_data_specification::AutosarVersion as PartialOrd>::(lt|le|gt|ge)$', self.m_version_ord)
        A(r'^<Vec<usize> as PartialEq>::(eq|ne)$', self.m_vec_usize_eq)
        A(r'^<&?\[usize\] as PartialEq>::(eq|ne)$', self.m_vec_usize_eq)
        A(r'^<Vec<usize> as std::ops::Index<.*>>::index$', lambda ex, c, a: self.m_index_range(ex, c, [self.any_slice(ex, a[0]), a[1]]))
        A(r'^<std::option::Option<autosar_data_specification::(ElementName|AttributeName|EnumItem)> as PartialEq>::(eq|ne)$', self.m_opt_int_eq)
        A(r'^<Vec<usize> as Ord>::cmp$', self.m_vec_usize_cmp)
        A(r'^smallvec::SmallVec::<.*>::new$', lambda ex, c, a: VecV(ty='SmallVec'))
        A(r'^smallvec::SmallVec::<.*>::push$', self.m_vec_push)
        A(r'^smallvec::SmallVec::<.*>::insert$', self.m_vec_insert)
        A(r'^smallvec::SmallVec::<.*>::remove$', self.m_vec_remove)
        A(r'^smallvec::SmallVec::<.*>::clear$', self.m_vec_clear)
        A(r'^<smallvec::SmallVec<.*> as Deref>::deref$', lambda ex, c, a: Slice(list(ex.deref(a[0]).items), 0, len(ex.deref(a[0]).items), False))
        A(r'^<std::path::PathBuf as Clone>::clone$', lambda ex, c, a: Opaque('PathBuf'))
        A(r'^core::panicking::|^std::rt::begin_panic|^core::option::unwrap_failed|^core::result::unwrap_failed|^core::option::expect_failed|^core::slice::index::|^core::str::slice_error_fail', self.m_panic)

    # ---- helpers -------------------------------------------------------------------------------------
    def neg(self, b):
        if isinstance(b, bool):
            return not b
        return z3.simplify(z3.Not(b))

    def any_slice(self, ex, v):
        if isinstance(v, (Ref, ElemRef)):
            v = ex.deref(v)
        if isinstance(v, Slice):
            return v
        if isinstance(v, Str):
            return Slice(list(v.b), 0, len(v.b), False)
        if isinstance(v, VecV):
            return Slice(list(v.items), 0, len(v.items), False)
        if isinstance(v, Agg) and v.ty == 'array':
            return Slice(list(v.fields), 0, len(v.fields), False)
        raise Unsupported(f'not a slice: {v!r}')

    def m_panic(self, ex, c, a):
        raise Panic(c)

    def m_opt_filter(self, ex, c, a):
        if a[0].variant != 'Some':
            return a[0]
        keep = ex.decide(ex.call_closure(a[1], [Ref(Cell(a[0].fields[0]))]))
        return a[0] if keep else NONE()

    def m_char_to_digit(self, ex, c, a):
        ch = a[0]
        radix = ex.concretize(a[1])
        if radix < 2 or radix > 36:
            raise Panic('to_digit: radix is too high (maximum 36)')
        b = z3.Extract(7, 0, ch.e)
        if ex.decide(z3.UGE(ch.e, 0x80)):
            return NONE()
        okd, dv = digit_value(b, radix)
        if ex.decide(okd):
            return some(I(z3.simplify(z3.ZeroExt(24, dv)), False, 'u32'))
        return NONE()

    def m_clone_cdata(self, ex, c, a):
        v = ex.deref(a[0])
        if v.variant == 'String':
            return Agg('CharacterData', 'String', [Str(list(v.fields[0].b))])
        return Agg('CharacterData', v.variant, list(v.fields))

    def m_slice_first(self, ex, c, a):
        sl = self.any_slice(ex, a[0])
        return some(ElemRef(sl, 0)) if sl.len > 0 else NONE()

    def m_slice_get(self, ex, c, a):
        sl = self.any_slice(ex, a[0])
        i = ex.concretize(a[1])
        return some(ElemRef(sl, i)) if i < sl.len else NONE()

    def m_smallvec_cmp(self, ex, c, a):
        """lexicographic comparison of two vectors through the element type's own Ord::cmp (crate MIR)"""
        ty = re.search(r'SmallVec<\[(\w+); \d+\]>', c).group(1)
        x = self.any_slice(ex, a[0])
        y = self.any_slice(ex, a[1])
        for i in range(min(x.len, y.len)):
            o = ex.do_call(f'<{ty} as Ord>::cmp', [ElemRef(x, i), ElemRef(y, i)])
            if o.variant != 'Equal':
                return o
        if x.len < y.len:
            return ordering('Less')
        if x.len > y.len:
            return ordering('Greater')
        return ordering('Equal')

    def m_unwrap(self, ex, c, a):
        v = a[0]
        if v.variant in ('Some', 'Ok'):
            return v.fields[0]
        raise Panic(f'called unwrap/expect on {v.variant}')

    def m_and_then(self, ex, c, a):
        if a[0].variant == 'Some':
            return ex.call_closure(a[1], [a[0].fields[0]])
        return a[0]

    def m_contains_char(self, ex, c, a):
        sl = to_slice(ex, a[0])
        ch = a[1].conc()
        if ch is None or ch >= 0x80:
            raise Unsupported('contains(char) with a non-ASCII / symbolic pattern')
        if sl.len == 0:
            return False
        return z3.simplify(z3.Or(*[b == ch for b in sl.items()]))

    def m_find_chars(self, ex, c, a):
        """str::find([char; N]): byte offset of the first character that is one of the (ASCII) patterns"""
        sl = to_slice(ex, a[0])
        pats = [x.conc() for x in a[1].fields]
        if any(p is None or p >= 0x80 for p in pats):
            raise Unsupported('find([char]) with a non-ASCII / symbolic pattern')
        for i, b in enumerate(sl.items()):
            if ex.decide(z3.Or(*[b == p for p in pats])):
                return some(usize(i))
        return NONE()

    def m_chars_skip(self, ex, c, a):
        """Chars::skip(n): n CHARACTERS are consumed (lazily in std; eagerly here - the result is the same iterator state)"""
        it = a[0]
        n = ex.concretize(a[1])
        it = Iter('chars', it.slice, it.pos)
        for _ in range(n):
            if self.m_chars_next(ex, c, [Ref(Cell(it))]).variant == 'None':
                break
        return it

    def m_contains_chars(self, ex, c, a):
        sl = to_slice(ex, a[0])
        pats = [x.conc() for x in a[1].fields]
        if any(p is None or p >= 0x80 for p in pats):
            raise Unsupported('contains([char]) with a non-ASCII / symbolic pattern')
        if sl.len == 0:
            return False
        return z3.simplify(z3.Or(*[b == p for b in sl.items() for p in pats]))

    def store(self, ex, r, val):
        """write val through a reference (the pointee is REPLACED, shared values are not mutated)"""
        if not isinstance(r, Ref):
            raise Unsupported(f'store through {r!r}')
        if not r.path:
            r.cell.v = val
            return
        v = r.cell.v
        for pe in r.path[:-1]:
            v = ex.proj(v, pe)
        last = r.path[-1]
        if last[0] in ('f', 'i') and isinstance(v, Agg):
            v.fields[last[1]] = val
            return
        raise Unsupported(f'store through {last} into {v!r}')

    def m_opt_take(self, ex, c, a):
        cur = ex.deref(a[0])
        self.store(ex, a[0], NONE())
        return cur

    def _match_at(self, ex, hay, pat, i):
        return ex.decide(bytes_eq(hay[i:i + len(pat)], pat))

    def m_contains_str(self, ex, c, a):
        hay = to_slice(ex, a[0]).items()
        pat = as_bytes_list(ex, a[1])
        if len(pat) == 0:
            return True
        for i in range(0, len(hay) - len(pat) + 1):
            if self._match_at(ex, hay, pat, i):
                return True
        return False

    def m_str_replace(self, ex, c, a):
        """str::replace(from, to): non-overlapping matches from the left (from must be non-empty here)"""
        hay = to_slice(ex, a[0]).items()
        pat = as_bytes_list(ex, a[1])
        to = as_bytes_list(ex, a[2])
        if len(pat) == 0:
            raise Unsupported('str::replace with an empty pattern')
        out = []
        i = 0
        while i < len(hay):
            if i + len(pat) <= len(hay) and self._match_at(ex, hay, pat, i):
                out.extend(to)
                i += len(pat)
            else:
                out.append(hay[i])
                i += 1
        return Str(out)

    def m_find_char(self, ex, c, a):
        sl = to_slice(ex, a[0])
        ch = a[1].conc()
        if ch is None or ch >= 0x80:
            raise Unsupported('find(char) with a non-ASCII / symbolic pattern')
        for i, b in enumerate(sl.items()):
            if ex.decide(b == ch):
                return some(usize(i))
        return NONE()

    def m_starts_with(self, ex, c, a):
        sl = to_slice(ex, a[0])
        pat = as_bytes_list(ex, a[1])
        if len(pat) > sl.len:
            return False
        return bytes_eq(sl.items()[:len(pat)], pat)

    def m_strip_prefix(self, ex, c, a):
        sl = to_slice(ex, a[0])
        if isinstance(a[1], I):
            pat = encode_utf8(ex, a[1])
        else:
            pat = as_bytes_list(ex, a[1])
        if len(pat) > sl.len:
            return NONE()
        if ex.decide(bytes_eq(sl.items()[:len(pat)], pat)):
            return some(sl.sub(len(pat), sl.len))
        return NONE()

    def m_strip_suffix(self, ex, c, a):
        sl = to_slice(ex, a[0])
        pat = as_bytes_list(ex, a[1])
        if len(pat) > sl.len:
            return NONE()
        if ex.decide(bytes_eq(sl.items()[sl.len - len(pat):], pat)):
            return some(sl.sub(0, sl.len - len(pat)))
        return NONE()

    def m_starts_with_char(self, ex, c, a):
        sl = to_slice(ex, a[0])
        ch = a[1].conc()
        if ch is None or ch >= 0x80:
            raise Unsupported('starts_with(char) with a non-ASCII / symbolic pattern')
        if sl.len == 0:
            return False
        return z3.simplify(sl.items()[0] == ch)

    def m_chars_next(self, ex, c, a):
        it = ex.deref(a[0])
        sl = it.slice
        if it.pos >= sl.len:
            return NONE()
        ch, w = decode_utf8_at(ex, sl.buf, sl.off + it.pos, sl.off + sl.len)
        it.pos += w
        return some(ch)

    def m_try_fold(self, ex, c, a):
        """Iterator::try_fold for Option / Result accumulators over chars, bytes or slice elements"""
        it = ex.deref(a[0]) if isinstance(a[0], Ref) else a[0]
        acc = a[1]
        rty = None
        while True:
            if it.kind == 'chars':
                nx = self.m_chars_next(ex, c, [Ref(Cell(it))])
            elif it.kind == 'bytes':
                nx = self.m_bytes_next(ex, c, [Ref(Cell(it))])
            else:
                nx = self.m_iter_next(ex, c, [Ref(Cell(it))])
            if nx.variant == 'None':
                break
            r = ex.call_closure(a[2], [acc, nx.fields[0]])
            rty = r.ty
            if r.variant in ('Some', 'Ok', 'Continue'):
                acc = r.fields[0]
            else:
                return r
        if rty is None:
            m = re.search(r', ((?:std::option::)?Option|(?:std::result::)?Result|ControlFlow)<', c)
            rty = 'Option' if (m and 'Option' in m.group(1)) else ('Result' if m and 'Result' in m.group(1) else 'ControlFlow')
        return Agg(rty, {'Option': 'Some', 'Result': 'Ok', 'ControlFlow': 'Continue'}[rty], [acc])

    def m_str_trim(self, ex, c, a):
        """str::trim / trim_start / trim_end: Unicode White_Space (the set char::is_whitespace uses)"""
        sl = to_slice(ex, a[0])
        ws = [(0x09, 0x0D), (0x20, 0x20), (0x85, 0x85), (0xA0, 0xA0), (0x1680, 0x1680), (0x2000, 0x200A), (0x2028, 0x2029), (0x202F, 0x202F), (0x205F, 0x205F), (0x3000, 0x3000)]

        def is_wsp(ch):
            return z3.Or(*[z3.And(z3.UGE(ch.e, lo), z3.ULE(ch.e, hi)) for lo, hi in ws])
        start, end = 0, sl.len
        which = c.rsplit('::', 1)[-1]
        if which in ('trim', 'trim_start'):
            while start < end:
                ch, w = decode_utf8_at(ex, sl.buf, sl.off + start, sl.off + end)
                if not ex.decide(is_wsp(ch)):
                    break
                start += w
        if which in ('trim', 'trim_end'):
            while end > start:
                # step back to the start of the last scalar
                k = end - 1
                while k > start and ex.decide(z3.And(z3.UGE(sl.buf[sl.off + k], 0x80), z3.ULT(sl.buf[sl.off + k], 0xC0))):
                    k -= 1
                ch, w = decode_utf8_at(ex, sl.buf, sl.off + k, sl.off + end)
                if not ex.decide(is_wsp(ch)):
                    break
                end = k
        return sl.sub(start, end)

    def m_split_next(self, ex, c, a):
        it = ex.deref(a[0])
        if it.extra['done']:
            return NONE()
        ch = it.extra['ch'].conc()
        sl = it.slice
        start = it.pos
        for i in range(start, sl.len):
            if ex.decide(sl.buf[sl.off + i] == ch):
                it.pos = i + 1
                return some(sl.sub(start, i))
        it.extra['done'] = True
        return some(sl.sub(start, sl.len))

    def m_index_range(self, ex, c, a):
        sl = a[0]
        if not isinstance(sl, Slice):
            sl = to_slice(ex, sl, c.startswith('<str'))
        r = a[1]
        is_str = c.startswith('<str')
        if 'RangeFrom' in c:
            s, e = ex.concretize(r.fields[0]), sl.len
        elif 'RangeTo' in c:
            s, e = 0, ex.concretize(r.fields[0])
        elif 'RangeFull' in c:
            s, e = 0, sl.len
        else:
            s, e = ex.concretize(r.fields[0]), ex.concretize(r.fields[1])
        if s > e:
            raise Panic(f'slice index starts at {s} but ends at {e}')
        if e > sl.len:
            raise Panic(f'range end index {e} out of range for slice of length {sl.len}')
        if is_str:
            check_char_boundary(ex, sl, s)
            check_char_boundary(ex, sl, e)
        return sl.sub(s, e)

    def elem_ref(self, sl, i):
        return ElemRef(sl, i)

    def m_iter_position(self, ex, c, a):
        it = ex.deref(a[0])
        sl = it.slice
        k = 0
        while it.pos < sl.len:
            i = it.pos
            it.pos += 1
            if ex.decide(ex.call_closure(a[1], [self.elem_ref(sl, i)])):
                return some(usize(k))
            k += 1
        return NONE()

    def m_iter_all(self, ex, c, a):
        it = ex.deref(a[0])
        sl = it.slice
        while it.pos < sl.len:
            i = it.pos
            it.pos += 1
            if not ex.decide(ex.call_closure(a[1], [self.elem_ref(sl, i)])):
                return False
        return True

    def m_iter_any(self, ex, c, a):
        it = ex.deref(a[0])
        sl = it.slice
        while it.pos < sl.len:
            i = it.pos
            it.pos += 1
            if ex.decide(ex.call_closure(a[1], [self.elem_ref(sl, i)])):
                return True
        return False

    def m_bytes_all_any(self, ex, c, a):
        it = ex.deref(a[0])
        sl = it.slice
        is_all = '::all::<' in c
        while it.pos < sl.len:
            i = it.pos
            it.pos += 1
            r = ex.decide(ex.call_closure(a[1], [I(sl.buf[sl.off + i], False, 'u8')]))
            if is_all and not r:
                return False
            if not is_all and r:
                return True
        return is_all

    def m_split_all_any(self, ex, c, a):
        # lazy, like the iterator: the next separator is searched only when the next part is needed
        it = ex.deref(a[0]) if isinstance(a[0], (Ref,)) else a[0]
        sl = it.slice
        is_all = '::all::<' in c
        start = 0
        done = False
        while not done:
            end = sl.len
            done = True
            for i in range(start, sl.len):
                if ex.decide(ex.call_closure(it.extra['pred'], [ElemRef(sl, i)])):
                    end = i
                    done = False
                    break
            part = sl.sub(start, end)
            r = ex.decide(ex.call_closure(a[1], [part]))
            if is_all and not r:
                return False
            if not is_all and r:
                return True
            start = end + 1
        return is_all

    def m_bytes_starts_ends(self, ex, c, a):
        sl = self.any_slice(ex, a[0])
        pat = as_bytes_list(ex, a[1])
        if len(pat) > sl.len:
            return False
        items = sl.items()
        part = items[:len(pat)] if c.endswith('starts_with') else items[sl.len - len(pat):]
        return bytes_eq(part, pat)

    def m_bsplit_next(self, ex, c, a):
        it = ex.deref(a[0]) if isinstance(a[0], Ref) else a[0]
        if it.extra.get('done'):
            return NONE()
        sl = it.slice
        start = it.pos
        for i in range(start, sl.len):
            if ex.decide(ex.call_closure(it.extra['pred'], [ElemRef(sl, i)])):
                it.pos = i + 1
                return some(sl.sub(start, i))
        it.extra['done'] = True
        return some(sl.sub(start, sl.len))

    def m_filter_count(self, ex, c, a):
        it = a[0]
        sl = it.slice
        n = 0
        for i in range(it.pos, sl.len):
            if ex.decide(ex.call_closure(it.extra['pred'], [Ref(Cell(ElemRef(sl, i)))])):
                n += 1
        return usize(n)

    def m_split_collect(self, ex, c, a):
        it = a[0]
        sl = it.slice
        parts = []
        start = 0
        for i in range(sl.len):
            if ex.decide(ex.call_closure(it.extra['pred'], [ElemRef(sl, i)])):
                parts.append(sl.sub(start, i))
                start = i + 1
        parts.append(sl.sub(start, sl.len))
        return VecV(parts)

    def m_try_into_array(self, ex, c, a):
        n = int(re.search(r'\[u8; (\d+)\]', c).group(1))
        b = as_bytes_list(ex, a[0])
        if len(b) != n:
            return err(Opaque('TryFromSliceError'))
        return ok(Agg('array', None, [I(x, False, 'u8') for x in b]))

    def m_from_le_bytes(self, ex, c, a):
        ty = re.search(r'impl (\w+)>', c).group(1)
        bs = [x.e for x in a[0].fields]
        return I(z3.simplify(z3.Concat(*reversed(bs))) if len(bs) > 1 else bs[0], False, ty)   # little endian (x86_64)

    def m_t_from_str_radix(self, ex, c, a):
        if not ex.tbind:
            raise Unsupported('generic T is not bound')
        return from_str_radix(ex, as_bytes_list(ex, a[0]), ex.concretize(a[1]), ex.tbind[-1])

    def m_t_try_from(self, ex, c, a):
        if not ex.tbind:
            raise Unsupported('generic T is not bound')
        ty = ex.tbind[-1]
        bits, signed = INT_TYPES[ty]
        v = a[0]
        lim = (1 << (bits - 1)) - 1 if signed else (1 << bits) - 1
        if bits >= 64 and not signed:
            return ok(I(v.e, False, ty))
        if ex.decide(z3.UGT(v.e, bv(lim, 64))):
            return err(Opaque('TryFromIntError'))
        return ok(I(z3.simplify(z3.Extract(bits - 1, 0, v.e)), signed, ty))

    def m_bytes_next(self, ex, c, a):
        it = ex.deref(a[0])
        if it.pos >= it.slice.len:
            return NONE()
        x = it.slice.buf[it.slice.off + it.pos]
        it.pos += 1
        return some(I(x, False, 'u8'))

    def m_binary_search_by(self, ex, c, a):
        """core::slice::binary_search_by as implemented in the standard library of the toolchain in use (branch-light loop:
        base moves to mid unless the probe is Greater); the result on an unsorted slice is whatever this loop yields"""
        sl = self.any_slice(ex, a[0])
        size = sl.len
        if size == 0:
            return err(usize(0))
        base = 0
        while size > 1:
            half = size // 2
            mid = base + half
            o = ex.call_closure(a[1], [ElemRef(sl, mid)])
            base = base if o.variant == 'Greater' else mid
            size -= half
        o = ex.call_closure(a[1], [ElemRef(sl, base)])
        if o.variant == 'Equal':
            return ok(usize(base))
        return err(usize(base + (1 if o.variant == 'Less' else 0)))

    def m_smallvec_index(self, ex, c, a):
        sl = self.any_slice(ex, a[0])
        i = ex.concretize(a[1])
        if i >= sl.len:
            raise Panic('index out of bounds')
        return ElemRef(sl, i)

    def m_element_ptr_eq(self, ex, c, a):
        def arc_cell(v):
            while isinstance(v, (Ref, ElemRef)):
                v = ex.deref(v)
            return v.fields[0].fields[0].cell      # Element(Arc(ref)) and WeakElement(Weak(ref)) have the same shape
        same = arc_cell(a[0]) is arc_cell(a[1])
        return same == c.endswith('eq')

    def _usize_items(self, ex, v):
        while isinstance(v, (Ref, ElemRef)):
            v = ex.deref(v)
        return [x for x in (v.items if isinstance(v, VecV) else v.items())]

    def m_vec_usize_eq(self, ex, c, a):
        x, y = self._usize_items(ex, a[0]), self._usize_items(ex, a[1])
        if len(x) != len(y):
            r = False
        else:
            conds = [z3.simplify(p.e == q.e) for p, q in zip(x, y)]
            if any(z3.is_false(t) for t in conds):
                r = False
            else:
                conds = [t for t in conds if not z3.is_true(t)]
                r = z3.And(*conds) if conds else True
        if c.endswith('eq'):
            return r
        return (not r) if isinstance(r, bool) else z3.Not(r)

    def m_version_ord(self, ex, c, a):
        """derived PartialOrd of the fieldless enum AutosarVersion: order of the discriminants (= order of declaration, ascending bits)"""
        x, y = ex.deref(a[0]), ex.deref(a[1])
        op = c.rsplit('::', 1)[1]
        return z3.simplify({'lt': z3.ULT, 'le': z3.ULE, 'gt': z3.UGT, 'ge': z3.UGE}[op](x.e, y.e))

    def m_opt_int_eq(self, ex, c, a):
        x, y = ex.deref(a[0]), ex.deref(a[1])
        if x.variant != y.variant:
            r = False
        elif x.variant == 'None':
            r = True
        else:
            r = z3.simplify(x.fields[0].e == y.fields[0].e)
            r = True if z3.is_true(r) else (False if z3.is_false(r) else r)
        if c.endswith('eq'):
            return r
        return (not r) if isinstance(r, bool) else z3.Not(r)

    def m_vec_usize_cmp(self, ex, c, a):
        x, y = self._usize_items(ex, a[0]), self._usize_items(ex, a[1])
        for p, q in zip(x, y):
            if ex.decide(z3.ULT(p.e, q.e)):
                return Agg('Ordering', 'Less', [])
            if ex.decide(z3.UGT(p.e, q.e)):
                return Agg('Ordering', 'Greater', [])
        return Agg('Ordering', 'Less' if len(x) < len(y) else ('Greater' if len(x) > len(y) else 'Equal'), [])

    def m_smallvec_index_mut(self, ex, c, a):
        r = a[0]
        v = ex.deref(r)
        i = ex.concretize(a[1])
        if i >= len(v.items):
            raise Panic('index out of bounds')
        return Ref(r.cell, list(r.path) + [('i', i)])

    def m_range_next(self, ex, c, a):
        r = ex.deref(a[0])
        start, end = r.fields[0], r.fields[1]
        if ex.decide(z3.ULT(start.e, end.e)):
            r.fields[0] = I(start.e + 1, False, start.ty)
            return some(start)
        return NONE()

    def m_enumerate_ops(self, ex, c, a):
        it = ex.deref(a[0]) if isinstance(a[0], Ref) else a[0]
        sl = it.slice
        op = re.search(r'::(all|any|next|position|find)(?:::<|$)', c).group(1)
        base = it.extra['base']

        def item(i):
            return Agg('tuple', None, [usize(i - base), ElemRef(sl, i)])
        if op == 'next':
            if it.pos >= sl.len:
                return NONE()
            i = it.pos
            it.pos += 1
            return some(item(i))
        k = 0
        while it.pos < sl.len:
            i = it.pos
            it.pos += 1
            arg = item(i)
            r = ex.decide(ex.call_closure(a[1], [Ref(Cell(arg))] if op == 'find' else [arg]))
            if op == 'all' and not r:
                return False
            if op == 'any' and r:
                return True
            if op == 'position' and r:
                return some(usize(k))
            if op == 'find' and r:
                return some(arg)
            k += 1
        return {'all': True, 'any': False}.get(op, NONE())

    def m_iter_find(self, ex, c, a):
        it = ex.deref(a[0])
        sl = it.slice
        while it.pos < sl.len:
            i = it.pos
            it.pos += 1
            er = self.elem_ref(sl, i)
            if ex.decide(ex.call_closure(a[1], [Ref(Cell(er))])):
                return some(er)
        return NONE()

    def m_iter_next(self, ex, c, a):
        it = ex.deref(a[0])
        if it.pos >= it.slice.len:
            return NONE()
        i = it.pos
        it.pos += 1
        return some(self.elem_ref(it.slice, i))

    def m_ref_bytes_eq(self, ex, c, a):
        x = as_bytes_list(ex, ex.deref(a[0]))
        y = as_bytes_list(ex, ex.deref(a[1]))
        r = bytes_eq(x, y)
        return r if c.endswith('eq') else self.neg(r)

    def m_int_enum_eq(self, ex, c, a):
        x = ex.deref(a[0])
        y = ex.deref(a[1])
        r = z3.simplify(x.e == y.e)
        return r if c.endswith('eq') else self.neg(r)

    def m_str_cmp(self, ex, c, a):
        x = as_bytes_list(ex, a[0])
        y = as_bytes_list(ex, a[1])
        eq = bytes_eq(x, y)
        return cmp3(ex, lex_lt(x, y), eq)

    def m_f64_partial_cmp(self, ex, c, a):
        x = ex.deref(a[0]).e
        y = ex.deref(a[1]).e
        if ex.decide(z3.Or(z3.fpIsNaN(x), z3.fpIsNaN(y))):
            return NONE()
        return some(cmp3(ex, z3.fpLT(x, y), z3.fpEQ(x, y)))

    def m_push_str(self, ex, c, a):
        s = ex.deref(a[0])
        s.b.extend(as_bytes_list(ex, a[1]))
        return UNIT

    def m_push(self, ex, c, a):
        s = ex.deref(a[0])
        s.b.extend(encode_utf8(ex, a[1]))
        return UNIT

    def m_from_utf8(self, ex, c, a):
        b = as_bytes_list(ex, a[0])
        if utf8_valid(ex, b):
            return ok(Slice(b, 0, len(b), True))
        return err(Opaque('Utf8Error'))

    def m_from_utf8_lossy(self, ex, c, a):
        b = as_bytes_list(ex, a[0])
        segs = utf8_scan(ex, b)
        if all(k == 'ok' for k, _ in segs):
            return Agg('Cow', 'Borrowed', [Slice(b, 0, len(b), True)])
        out = []
        for k, v in segs:
            if k == 'ok':
                out.extend(v)
            else:
                out.extend([bv(0xEF, 8), bv(0xBF, 8), bv(0xBD, 8)])      # U+FFFD per ill-formed sequence
        return Agg('Cow', 'Owned', [Str(out)])

    def m_parse_f64(self, ex, c, a):
        b = as_bytes_list(ex, a[0])
        n = len(b)
        okf = z3.Function(f'parse_f64_ok_{n}', *([z3.BitVecSort(8)] * n + [z3.BoolSort()])) if n else None
        valf = z3.Function(f'parse_f64_val_{n}', *([z3.BitVecSort(8)] * n + [z3.Float64()])) if n else None
        if n == 0:
            return err(Opaque('ParseFloatError'))
        vals = [z3.simplify(x) for x in b]
        if all(z3.is_bv_value(x) for x in vals):
            # the special values of <f64 as FromStr>: [+-]?(inf|infinity|nan), ASCII case-insensitive
            t = bytes(x.as_long() for x in vals).lower()
            neg = t.startswith(b'-')
            core_t = t[1:] if t[:1] in (b'+', b'-') else t
            if core_t in (b'inf', b'infinity'):
                return ok(F(z3.fpMinusInfinity(z3.Float64()) if neg else z3.fpPlusInfinity(z3.Float64())))
            if core_t == b'nan':
                return ok(F(z3.fpNaN(z3.Float64())))
        if ex.decide(okf(*b)):
            return ok(F(valf(*b)))
        return err(Opaque('ParseFloatError'))

    def m_char_from_u32(self, ex, c, a):
        v = a[0].e
        bad = z3.Or(z3.UGE(v, 0x110000), z3.And(z3.UGE(v, 0xD800), z3.ULE(v, 0xDFFF)))
        if ex.decide(bad):
            return NONE()
        return some(I(v, False, 'char'))

    def m_num_to_string(self, ex, c, a):
        v = ex.deref(a[0]) if isinstance(a[0], (Ref, ElemRef)) else a[0]
        if isinstance(v, F):
            # Display for f64: NaN / inf / -inf are fixed texts; finite values need core::fmt (outside the engine)
            if ex.decide(z3.fpIsNaN(v.e)):
                return Str(lit_bytes(b'NaN'))
            if ex.decide(z3.fpIsInf(v.e)):
                return Str(lit_bytes(b'-inf' if ex.decide(z3.fpIsNegative(v.e)) else b'inf'))
            raise Unsupported('to_string of a finite symbolic float (core::fmt is outside the engine)')
        if isinstance(v, I):
            k = v.conc()
            if k is not None:
                return Str(lit_bytes(str(k).encode()))
        raise Unsupported('to_string of a symbolic number (core::fmt is outside the engine)')

    def _vecv(self, ex, v):
        while isinstance(v, (Ref, ElemRef)):
            v = ex.deref(v)
        if not isinstance(v, VecV):
            raise Unsupported(f'not a Vec: {v!r}')
        return v

    def m_strings_reverse(self, ex, c, a):
        self._vecv(ex, a[0]).items.reverse()
        return UNIT

    def m_strings_join(self, ex, c, a):
        v = self._vecv(ex, a[0])
        sep = as_bytes_list(ex, a[1])
        out = []
        for i, s_ in enumerate(v.items):
            if i:
                out.extend(sep)
            out.extend(as_bytes_list(ex, s_))
        return Str(out)

    def m_vec_into_iter_next(self, ex, c, a):
        """Vec::into_iter() is the identity in the executor: the vector is consumed from the front"""
        it = ex.deref(a[0])
        if not isinstance(it, VecV):
            raise Unsupported(f'IntoIter::next on {it!r}')
        if not it.items:
            return NONE()
        return some(it.items.pop(0))

    def m_vec_swap_remove(self, ex, c, a):
        v = self._vecv(ex, a[0])
        i = ex.concretize(a[1])
        if i >= len(v.items):
            raise Panic('swap_remove index out of bounds')
        last = v.items.pop()
        if i < len(v.items):
            out = v.items[i]
            v.items[i] = last
            return out
        return last

    def m_vec_append(self, ex, c, a):
        dst, src = ex.deref(a[0]), ex.deref(a[1])
        dst.items.extend(src.items)
        del src.items[:]
        return UNIT

    def m_vec_insert(self, ex, c, a):
        v = ex.deref(a[0])
        i = ex.concretize(a[1])
        if i > len(v.items):
            raise Panic('insertion index out of bounds')
        v.items.insert(i, a[2])
        return UNIT

    def m_vec_remove(self, ex, c, a):
        v = ex.deref(a[0])
        i = ex.concretize(a[1])
        if i >= len(v.items):
            raise Panic('removal index out of bounds')
        return v.items.pop(i)

    def m_vec_clear(self, ex, c, a):
        del ex.deref(a[0]).items[:]
        return UNIT

    def m_vec_push(self, ex, c, a):
        v = ex.deref(a[0])
        v.items.append(a[1])
        return UNIT
