#!/usr/bin/env python3
"""run one E2 harness: run_e2.py <mirdir> <harness class> <json params> <out.json>"""
import json
import os
import sys
sys.path.insert(0, os.path.dirname(os.path.abspath(__file__)))
import e2defs
import e2edit  # noqa: F401  (registers its harness classes)
import e2ver  # noqa: F401
import e2sort  # noqa: F401
import e2index  # noqa: F401
from e2lib import load_program


def main():
    mirdir, cls, params, out = sys.argv[1], sys.argv[2], json.loads(sys.argv[3]), sys.argv[4]
    prog = load_program(mirdir)
    known = params.pop('_known', [])
    name = params.pop('_name', cls)
    h = e2defs.REG[cls]()
    for k, v in params.items():
        setattr(h, k, v)
    h.name = name
    res = h.execute(prog, known)
    json.dump(res, open(out, 'w'), indent=1)
    print(res['status'], res['stats'])


if __name__ == '__main__':
    main()
