"""Parser for rustc's `-Zunpretty=mir` text: functions, locals, basic blocks; places, operands, rvalues, terminators.

Only the constructs that occur in the functions the checks execute are supported; anything else raises Unsupported
(the check then reports the harness as inconclusive - it never guesses).
"""
import re


class Unsupported(Exception):
    pass


class Func:
    def __init__(self, name, args, ret, body):
        self.name = name
        self.args = args          # [(local id, type str)]
        self.ret = ret
        self.locals = {}          # id -> type str
        self.blocks = {}          # 'bb0' -> Block
        self._parse_body(body)

    def _parse_body(self, body):
        for a, t in self.args:
            self.locals[a] = t
        cur = None
        for raw in body.split('\n'):
            ln = raw.strip()
            if not ln:
                continue
            m = re.match(r'^let (?:mut )?(_\d+): (.*);$', ln)
            if m and cur is None:
                self.locals[m.group(1)] = m.group(2)
                continue
            m = re.match(r'^(bb\d+)( \(cleanup\))?: \{$', ln)
            if m:
                cur = Block(m.group(1), bool(m.group(2)))
                self.blocks[cur.name] = cur
                continue
            if cur is not None:
                if ln == '}':
                    cur = None
                    continue
                cur.lines.append(ln)
        for b in self.blocks.values():
            if not b.lines:
                raise Unsupported(f'empty block {b.name} in {self.name}')
            b.term = b.lines[-1]
            b.stmts = b.lines[:-1]


class Block:
    def __init__(self, name, cleanup):
        self.name = name
        self.cleanup = cleanup
        self.lines = []
        self.stmts = []
        self.term = None


RE_CONST = re.compile(r'^const ([^\n]*?promoted\[\d+\]|\S+): ([^\n]*?) = \{\n(.*?)^\}\n', re.M | re.S)
RE_FN = re.compile(r'^fn (.*?)\((.*?)\) -> (.*?) \{\n(.*?)^\}\n', re.M | re.S)


def split_top(s, sep=','):
    """split at separator occurrences that are outside (), [], {}, <> and quotes"""
    out = []
    depth = 0
    cur = []
    i = 0
    n = len(s)
    inq = None
    while i < n:
        c = s[i]
        if inq:
            cur.append(c)
            if c == '\\':
                if i + 1 < n:
                    cur.append(s[i + 1])
                    i += 1
            elif c == inq:
                inq = None
            i += 1
            continue
        if c == '"':
            inq = c
            cur.append(c)
        elif c == "'" and is_char_lit(s, i):
            j = char_lit_end(s, i)
            cur.append(s[i:j])
            i = j
            continue
        elif c in '([{':
            depth += 1
            cur.append(c)
        elif c in ')]}':
            depth -= 1
            cur.append(c)
        elif c == '<':
            depth += 1
            cur.append(c)
        elif c == '>' and i > 0 and s[i - 1] not in '-=':
            depth -= 1
            cur.append(c)
        elif c == sep and depth == 0:
            out.append(''.join(cur).strip())
            cur = []
        else:
            cur.append(c)
        i += 1
    t = ''.join(cur).strip()
    if t:
        out.append(t)
    return out


def is_char_lit(s, i):
    # 'x' or '\n' or '\'' or '\u{..}' ; lifetimes look like 'a (no closing quote right after)
    if s[i + 1:i + 2] == '\\':
        return True
    return s[i + 2:i + 3] == "'" and s[i + 1:i + 2] != "'"


def char_lit_end(s, i):
    j = i + 1
    if s[j] == '\\':
        j += 2
        while s[j] != "'":
            j += 1
        return j + 1
    return i + 3


def parse_functions(text):
    fns = {}
    for m in RE_FN.finditer(text):
        name, args, ret, body = m.group(1), m.group(2), m.group(3), m.group(4)
        arglist = []
        if args.strip():
            for a in split_top(args):
                mm = re.match(r'^(_\d+): (.*)$', a, re.S)
                if not mm:
                    raise Unsupported(f'argument {a!r} of {name}')
                arglist.append((mm.group(1), mm.group(2)))
        fns[name] = (name, arglist, ret, body)
    # promoted constants / const items with a body: zero-argument functions
    for m in RE_CONST.finditer(text):
        fns['const ' + m.group(1)] = ('const ' + m.group(1), [], m.group(2), m.group(3))
    return fns


# ------------------------------------------------------------------------------------------------------
# places
# ------------------------------------------------------------------------------------------------------
def find_matching(s, i):
    """s[i] is an opening bracket; return index of its partner (quotes and nested brackets respected; '<' '>' ignored)"""
    op = s[i]
    cl = {'(': ')', '[': ']', '{': '}'}[op]
    depth = 0
    j = i
    n = len(s)
    while j < n:
        c = s[j]
        if c == '"':
            j += 1
            while s[j] != '"':
                if s[j] == '\\':
                    j += 1
                j += 1
        elif c == "'" and is_char_lit(s, j):
            j = char_lit_end(s, j) - 1
        elif c in '([{':
            depth += 1
        elif c in ')]}':
            depth -= 1
            if depth == 0:
                if c != cl:
                    raise Unsupported(f'bracket mismatch in {s!r}')
                return j
        j += 1
    raise Unsupported(f'unbalanced {s!r}')


def parse_place(s):
    """returns (base local, [projection...]) ; projections: ('deref',) ('field', n) ('downcast', name) ('index', local)
    ('cindex', n, from_end) ('subslice', a, b, from_end)"""
    s = s.strip()
    pl, rest = _place(s)
    if rest.strip():
        raise Unsupported(f'trailing text in place {s!r}: {rest!r}')
    return pl


def _place(s):
    if s.startswith('(*'):
        end = find_matching(s, 0)
        inner = parse_place(s[2:end])
        pl = (inner[0], inner[1] + [('deref',)])
        rest = s[end + 1:]
    elif s.startswith('('):
        end = find_matching(s, 0)
        body = s[1:end]
        # inner place then ".N: TYPE" or " as Variant"
        inner, r = _place(body)
        m = re.match(r'^\.(\d+): ', r)
        if m:
            pl = (inner[0], inner[1] + [('field', int(m.group(1)))])
        else:
            m = re.match(r'^ as (\w+)$', r)
            if not m:
                raise Unsupported(f'place projection {r!r} in {s!r}')
            pl = (inner[0], inner[1] + [('downcast', m.group(1))])
        rest = s[end + 1:]
    else:
        m = re.match(r'^(_\d+)', s)
        if not m:
            raise Unsupported(f'place {s!r}')
        pl = (m.group(1), [])
        rest = s[m.end():]
    while rest.startswith('['):
        end = find_matching(rest, 0)
        idx = rest[1:end]
        m = re.match(r'^(_\d+)$', idx)
        if m:
            pl = (pl[0], pl[1] + [('index', m.group(1))])
        else:
            m = re.match(r'^(-?)(\d+) of (\d+)$', idx)
            if m:
                pl = (pl[0], pl[1] + [('cindex', int(m.group(2)), m.group(1) == '-')])
            else:
                m = re.match(r'^(\d+):(-?)(\d*)$', idx)
                if not m:
                    raise Unsupported(f'index projection {idx!r}')
                pl = (pl[0], pl[1] + [('subslice', int(m.group(1)), int(m.group(3) or 0), m.group(2) == '-')])
        rest = rest[end + 1:]
    return pl, rest


# ------------------------------------------------------------------------------------------------------
# operands / rvalues
# ------------------------------------------------------------------------------------------------------
BINOPS = {'Add', 'Sub', 'Mul', 'Div', 'Rem', 'BitAnd', 'BitOr', 'BitXor', 'Shl', 'Shr', 'Eq', 'Ne', 'Lt', 'Le', 'Gt', 'Ge',
          'AddWithOverflow', 'SubWithOverflow', 'MulWithOverflow', 'AddUnchecked', 'SubUnchecked', 'MulUnchecked',
          'ShlUnchecked', 'ShrUnchecked', 'Offset', 'Cmp'}
UNOPS = {'Not', 'Neg', 'PtrMetadata'}


def parse_operand(s):
    s = s.strip()
    if s.startswith('copy '):
        return ('copy', parse_place(s[5:]))
    if s.startswith('move '):
        return ('move', parse_place(s[5:]))
    if s.startswith('const '):
        return ('const', s[6:].strip())
    if re.match(r'^[\w<]', s) and '::' in s:
        # a function item named by its path (zero-sized fn item passed as a value)
        return ('const', 'ZeroSized: {' + s + '}')
    if re.match(r'^[A-Z]\w*$', s):
        # the constructor of a tuple struct passed as a function value (e.g. `.map(Element)`)
        return ('const', 'ZeroSized: {' + s + '}')
    raise Unsupported(f'operand {s!r}')


def parse_rvalue(s):
    s = s.strip()
    if s.startswith('no_retag '):
        s = s[len('no_retag '):]
    if s.startswith(('copy ', 'move ', 'const ')):
        # maybe a cast: "<operand> as TYPE (Kind)"
        m = re.match(r'^(.*) as (.*) \((\w+(?:\(.*\))?)\)$', s)
        if m and not s.startswith('const "'):
            try:
                return ('cast', parse_operand(m.group(1)), m.group(2), m.group(3))
            except Unsupported:
                pass
        return ('use', parse_operand(s))
    if s.startswith('&'):
        m = re.match(r'^&(mut |raw const \(fake\) |raw mut \(fake\) |raw const |raw mut |fake shallow |fake )?(.*)$', s)
        return ('ref', (m.group(1) or '').strip(), parse_place(m.group(2)))
    m = re.match(r'^(\w+)\((.*)\)$', s)
    if m and (m.group(1) in BINOPS or m.group(1) in UNOPS or m.group(1) in ('discriminant', 'Len', 'CopyForDeref')):
        op = m.group(1)
        if op == 'discriminant':
            return ('discriminant', parse_place(m.group(2)))
        if op == 'Len':
            return ('len', parse_place(m.group(2)))
        if op == 'CopyForDeref':
            return ('use', ('copy', parse_place(m.group(2))))
        parts = split_top(m.group(2))
        if op in UNOPS:
            return ('unop', op, parse_operand(parts[0]))
        return ('binop', op, parse_operand(parts[0]), parse_operand(parts[1]))
    if s.startswith('(') and find_matching(s, 0) == len(s) - 1:
        inner = s[1:-1].strip()
        if inner == '':
            return ('tuple', [])
        parts = split_top(inner)
        return ('tuple', [parse_operand(p) for p in parts])
    if s.startswith('[') and find_matching(s, 0) == len(s) - 1:
        inner = s[1:-1]
        semi = split_top(inner, ';')
        if len(semi) == 2:
            return ('repeat', parse_operand(semi[0]), semi[1].strip())
        return ('array', [parse_operand(p) for p in split_top(inner)])
    if s.startswith('{closure@') or s.startswith('{coroutine'):
        end = find_matching(s, 0)
        rest = s[end + 1:].strip()
        caps = []
        if rest:
            if not (rest.startswith('{') and rest.endswith('}')):
                raise Unsupported(f'closure aggregate {s!r}')
            for p in split_top(rest[1:-1]):
                mm = re.match(r'^(\w+): (.*)$', p, re.S)
                caps.append(parse_operand(mm.group(2)))
        return ('closure', s[:end + 1], caps)
    # enum / struct aggregates: Path::Variant(ops) | Path { f: op } | Path::Variant | Path (unit struct)
    if s.endswith(')'):
        # find the '(' matching the last ')'
        i = matching_open(s, len(s) - 1)
        head = s[:i]
        args = s[i + 1:-1]
        ops = [parse_operand(p) for p in split_top(args)] if args.strip() else []
        return ('adt', head.strip(), None, ops)
    if s.endswith('}'):
        i = matching_open(s, len(s) - 1)
        head = s[:i].strip()
        body = s[i + 1:-1]
        names = []
        ops = []
        for p in split_top(body):
            mm = re.match(r'^(\w+): (.*)$', p, re.S)
            if not mm:
                raise Unsupported(f'struct field {p!r}')
            names.append(mm.group(1))
            ops.append(parse_operand(mm.group(2)))
        return ('adt', head, names, ops)
    if re.match(r'^[\w:<>\', &\[\];()]+$', s):
        return ('adt', s, None, [])
    raise Unsupported(f'rvalue {s!r}')


def matching_open(s, j):
    cl = s[j]
    op = {')': '(', ']': '[', '}': '{'}[cl]
    depth = 0
    i = j
    while i >= 0:
        c = s[i]
        if c in ')]}':
            depth += 1
        elif c in '([{':
            depth -= 1
            if depth == 0:
                return i
        i -= 1
    raise Unsupported(f'unbalanced {s!r}')


# ------------------------------------------------------------------------------------------------------
# statements and terminators
# ------------------------------------------------------------------------------------------------------
def parse_statement(ln):
    ln = ln.rstrip(';').strip()
    if ln.startswith(('StorageLive(', 'StorageDead(', 'nop', 'FakeRead(', 'PlaceMention(', 'Retag(', 'ConstEvalCounter', 'AscribeUserType(', 'Coverage::', 'Deinit(', 'BackwardIncompatibleDropHint(')):
        return ('nop',)
    m = re.match(r'^discriminant\((.*)\) = (\d+)$', ln)
    if m:
        return ('setdiscr', parse_place(m.group(1)), int(m.group(2)))
    # assignment: place = rvalue  (the place never contains ' = ')
    i = ln.find(' = ')
    if i < 0:
        raise Unsupported(f'statement {ln!r}')
    return ('assign', parse_place(ln[:i]), parse_rvalue(ln[i + 3:]))


def parse_terminator(ln):
    ln = ln.rstrip(';').strip()
    if ln in ('return', 'unreachable', 'resume') or ln.startswith('resume'):
        return (ln.split()[0],)
    if ln.startswith('unwind terminate') or ln.startswith('terminate'):
        return ('unreachable',)
    m = re.match(r'^goto -> (bb\d+)$', ln)
    if m:
        return ('goto', m.group(1))
    m = re.match(r'^falseEdge -> \[real: (bb\d+), imaginary: bb\d+\]$', ln)
    if m:
        return ('goto', m.group(1))
    m = re.match(r'^falseUnwind -> \[real: (bb\d+).*\]$', ln)
    if m:
        return ('goto', m.group(1))
    if ln.startswith('switchInt('):
        end = find_matching(ln, len('switchInt'))
        op = parse_operand(ln[len('switchInt('):end])
        m = re.match(r'^ -> \[(.*)\]$', ln[end + 1:])
        targets = []
        otherwise = None
        for t in split_top(m.group(1)):
            k, v = t.split(': ')
            if k == 'otherwise':
                otherwise = v
            else:
                targets.append((int(k), v))
        return ('switch', op, targets, otherwise)
    if ln.startswith('drop('):
        m = re.search(r'-> \[return: (bb\d+)', ln)
        return ('goto', m.group(1))
    if ln.startswith('assert('):
        end = find_matching(ln, len('assert'))
        inner = split_top(ln[len('assert('):end])
        cond = inner[0]
        expected = True
        if cond.startswith('!'):
            expected = False
            cond = cond[1:]
        m = re.search(r'-> \[success: (bb\d+)', ln[end:])
        return ('assert', parse_operand(cond), expected, inner[1] if len(inner) > 1 else '', m.group(1))
    # call
    m = re.match(r'^(.*) -> (?:\[return: (bb\d+), unwind[^\]]*\]|unwind \w+(?:\(\w+\))?)$', ln, re.S)
    if not m:
        m2 = re.match(r'^(.*) -> \[return: (bb\d+)\]$', ln, re.S)
        if m2:
            m = m2
        else:
            raise Unsupported(f'terminator {ln!r}')
    callpart = m.group(1)
    ret_bb = m.group(2) if m.lastindex and m.lastindex >= 2 else None
    dest = None
    i = callpart.find(' = ')
    if i >= 0 and re.match(r'^[\w\(\)\*\.: <>\',&\[\]]+$', callpart[:i]) and not callpart[:i].strip().startswith(('<', 'core', 'std', 'alloc')):
        try:
            dest = parse_place(callpart[:i])
            callpart = callpart[i + 3:]
        except Unsupported:
            dest = None
    callpart = callpart.strip()
    if not callpart.endswith(')'):
        raise Unsupported(f'call {callpart!r}')
    j = matching_open(callpart, len(callpart) - 1)
    callee = callpart[:j].strip()
    args = callpart[j + 1:-1]
    ops = [parse_operand(p) for p in split_top(args)] if args.strip() else []
    return ('call', dest, callee, ops, ret_bb)


RE_ALLOC = re.compile(r'^(alloc\d+) \(static: [^,]*, size: (\d+), align: \d+\) \{\n(.*?)^\}\n', re.M | re.S)


def parse_allocs(text):
    """{alloc id: bytes} for the plain-data STATIC allocations of the dump (those with relocations are skipped)"""
    out = {}
    for m in RE_ALLOC.finditer(text):
        name, size, body = m.group(1), int(m.group(2)), m.group(3)
        if '╾' in body or size > 200000:
            continue
        data = bytearray()
        ok = True
        for ln in body.split('\n'):
            if not ln.strip():
                continue
            parts = ln.split('│')
            hexpart = parts[1] if len(parts) >= 3 else parts[0]
            hp = hexpart.replace('__', '00').replace(' ', '')
            try:
                data += bytes.fromhex(hp)
            except ValueError:
                ok = False
                break
        if ok and len(data) == size:
            out[name] = bytes(data)
    return out
