"""E2 harness for C17 on whole (mini) documents: the real ArxmlFile::check_version_compatibility / set_version and the recursive
Element::check_version_compatibility are executed from their MIR on a tree that the real tokenizer + parse_element loaded, and
are compared with the real strict loader run on the same document relabelled with the target version."""
import z3
from e2lib import *
from e2defs import (register, REG, zand, znot, zb, ParseElementDoc, install_mini_schema, install_enum_table_models, warnings_of,
                    T_ROOT, T_PKGS, T_PKG, T_SN, T_CAT, string_table)
from mirexec import str_slice

P_HEAD = b'<AR-PACKAGES><AR-PACKAGE><SHORT-NAME>'
DOCS = {
    0: [b'<AR-PACKAGES><AR-PACKAGE><SHORT-NAME>', 'text', b'</SHORT-NAME></AR-PACKAGE></AR-PACKAGES></AUTOSAR>'],
    1: [b'<AR-PACKAGES><AR-PACKAGE><SHORT-NAME>', 'text', b'</SHORT-NAME><CATEGORY>', 'item', b'</CATEGORY></AR-PACKAGE></AR-PACKAGES></AUTOSAR>'],
    2: [b'<AR-PACKAGES><AR-PACKAGE><SHORT-NAME>', 'text', b'</SHORT-NAME><AR-PACKAGES><AR-PACKAGE><SHORT-NAME>', 'text',
        b'</SHORT-NAME><CATEGORY>', 'item', b'</CATEGORY></AR-PACKAGE></AR-PACKAGES></AR-PACKAGE></AR-PACKAGES></AUTOSAR>'],
    3: [b'<AR-PACKAGES><AR-PACKAGE><SHORT-NAME>', 'text', b'</SHORT-NAME><CATEGORY>', 'item', b'</CATEGORY></AR-PACKAGE><AR-PACKAGE><SHORT-NAME>', 'text',
        b'</SHORT-NAME><CATEGORY>', 'item', b'</CATEGORY></AR-PACKAGE></AR-PACKAGES></AUTOSAR>'],
}


@register
class C17Doc(ParseElementDoc):
    """documents of the mini schema in which CATEGORY is an enum-typed element: element availability (version mask of CATEGORY) and
    value availability (version masks of the two rows of its item table) are symbolic"""
    doc = 1
    part = None
    native = ('data', 'n_c17_doc')
    max_visits = 4096
    max_steps = 400000
    bound_is_hang = False

    def build_bytes(self, ex):
        out = []
        self.text = []
        self.items_used = []
        tab = string_table('enumitem.rs')
        for piece in DOCS[self.doc]:
            if piece == 'text':
                b = z3.BitVec(f'text{len(self.text)}', 8)
                ex.assume(z3.And(b != 0x3c, z3.ULT(b, 0x80)))
                self.text.append(b)
                out.append(b)
            elif piece == 'item':
                # the value text is the name of one of the first three enumeration items (symbolic choice)
                v = z3.BitVec(f'value_item{len(self.items_used)}', 16)
                ex.assume(z3.ULT(v, 3))
                k = ex.concretize(I(v, False, 'u16'), limit=4)
                self.items_used.append(v)
                out.extend(bv(c, 8) for c in tab[k])
            else:
                out.extend(bv(c, 8) for c in piece)
        return out

    def install(self, ex):
        install_mini_schema(ex, self)
        install_enum_table_models(ex.models)
        M = ex.models
        rows = []
        self.rows = []
        for i in range(2):
            it = z3.BitVec(f'row{i}_item', 16)
            mk = z3.BitVec(f'row{i}_mask', 32)
            ex.assume(z3.ULT(it, 3))
            rows.append((I(it, False, 'u16'), I(mk, False, 'u32')))
            self.rows.append((it, mk))
        enum_spec = Ref(Cell(spec_enum(rows)))
        ident = None

        def tid(a):
            t = ex.deref(a) if isinstance(a, (Ref, ElemRef)) else a
            return t.fields[1].conc()
        # SHORT-NAME keeps its identifier pattern (installed by install_mini_schema); CATEGORY becomes enum-typed
        old = [fn for rx, fn, _ in M.rx if rx.pattern == r'^autosar_data_specification::ElementType::chardata_spec$'][0]

        def chardata_spec(ex_, c, a):
            if tid(a[0]) == T_CAT:
                return some(enum_spec)
            return old(ex_, c, a)

        def opt_map_ctor(ex_, c, a):
            name = re.search(r'::map::<(\w+), fn', c).group(1)
            if a[0].variant != 'Some':
                return a[0]
            return some(Agg(name, None, [a[0].fields[0]]))
        import re
        adds = [
            (r'^autosar_data_specification::ElementType::chardata_spec$', chardata_spec),
            (r'^std::sync::Arc::<.*>::downgrade$', lambda ex_, c, a: Agg('Weak', None, [ex_.deref(a[0]).fields[0]])),
            (r'^std::sync::Weak::<.*>::upgrade$', lambda ex_, c, a: some(Agg('Arc', None, [ex_.deref(a[0]).fields[0]]))),
            (r'^std::option::Option::<std::sync::Arc<.*>>::map::<\w+, fn\(', opt_map_ctor),
            (r'^std::collections::HashSet::<.*>::is_empty$', lambda ex_, c, a: True),
            (r'^autosar_data_specification::ElementType::find_attribute_spec$', lambda ex_, c, a: NONE()),
        ]
        for pat, fn in adds:
            M.add(pat, fn, prefer=True)
            M.rx.insert(0, M.rx.pop())

    def strict_parse(self, ex, doc, version):
        f_new = find_fn(ex.prog, '::new', 'lexer.rs')
        f_pe = find_fn(ex.prog, '::parse_element', 'parser.rs')
        f_end = find_fn(ex.prog, '::verify_end_of_input', 'parser.rs')
        p = mk_parser(True, usize(1))
        p.fields[P_FILEVERSION] = I(version, False, 'u32')
        pcell = Cell(p)
        lx = Cell(ex.call(f_new, [Slice(list(doc), 0, len(doc), False), Opaque('PathBuf')]))
        root = Agg('ElementRaw', None, [Agg('ElementOrModel', 'None', []), mk_int(self.ids['root'], 'u16'),
                                        Agg('ElementType', None, [mk_int(0, 'u16'), mk_int(T_ROOT, 'u16')]),
                                        VecV([], ty='SmallVec'), VecV([], ty='SmallVec'), Opaque('HashSet'), NONE()])
        r = ex.call(f_pe, [Ref(pcell), root, Agg('Cow', 'Borrowed', [Slice([], 0, 0, True)]), Ref(lx)])
        if r.variant == 'Ok':
            r2 = ex.call(f_end, [Ref(pcell), Ref(lx)])
            if r2.variant == 'Err':
                return r2
        return r

    def run(self, ex):
        self.fv = z3.BitVec('fileversion', 32)
        self.tv = z3.BitVec('target_version', 32)
        for v in (self.fv, self.tv):
            ex.assume(z3.And(v != 0, (v & (v - 1)) == 0, z3.ULT(v, 1 << 21)))
        self.cat_mask = z3.BitVec('category_version_mask', 32)
        self.install(ex)
        doc = self.build_bytes(ex)
        if self.part is not None:
            # partition i of n by the concrete item choices (document values and the items of the two table rows)
            comb = 0
            for v in [I(x, False, 'u16') for x in self.items_used] + [I(r[0], False, 'u16') for r in self.rows]:
                comb = comb * 3 + ex.concretize(v, limit=4)
            if comb % self.part[1] != self.part[0]:
                raise Infeasible()
        r1 = self.strict_parse(ex, doc, self.fv)
        if r1.variant != 'Ok':
            return None
        root = r1.fields[0]
        # the file and the model that own the loaded tree (single-threaded stand-ins for Arc<RwLock<..>>)
        model_raw = Agg('AutosarModelRaw', None, [root, VecV(), Opaque('IndexMap'), Opaque('HashMap')])
        model_cell = Cell(Agg('RwLock', None, [model_raw]))
        weak_model = Agg('WeakAutosarModel', None, [Agg('Weak', None, [Ref(model_cell)])])
        file_raw = Agg('ArxmlFileRaw', None, [I(self.fv, False, 'u32'), weak_model, Opaque('PathBuf'), NONE()])
        file_cell = Cell(Agg('RwLock', None, [file_raw]))
        afile = Agg('ArxmlFile', None, [Agg('Arc', None, [Ref(file_cell)])])
        self.file_raw = file_raw
        f_cvc = find_fn(ex.prog, '::check_version_compatibility', 'arxmlfile.rs')
        f_set = find_fn(ex.prog, '::set_version', 'arxmlfile.rs')
        target = I(self.tv, False, 'u32')
        compat = ex.call(f_cvc, [Ref(Cell(afile)), target])
        setv = ex.call(f_set, [Ref(Cell(afile)), target])
        version_after = file_raw.fields[0]
        r2 = self.strict_parse(ex, doc, self.tv)
        return compat, setv, version_after, r2

    def prop(self, out, ex):
        if out[0] == 'panic':
            self.cover('panic')
            self.require(ex, False, 'panic: ' + out[1])
            return
        if out[1] is None:
            self.cover('not loaded in the source version')
            return
        compat, setv, version_after, r2 = out[1]
        errs, mask = compat.fields[0], compat.fields[1]
        n_err = len(errs.items)
        reload_ok = r2.variant == 'Ok'
        self.cover('compatible' if n_err == 0 else 'incompatible')
        # recorded finding: the element is available in the target version but its VALUE is not (the walk does not look at element values)
        K = self.value_class()
        KEY = 'C17-element-value-not-checked'

        def split(cond, msg):
            c = zb(cond)
            self.require(ex, z3.Or(c, K), msg)
            self.require(ex, z3.Or(c, z3.Not(K)), msg, known_key=KEY)
        split((n_err == 0) == reload_ok, 'the compatibility check lists no incompatibility although the content relabelled with the target version fails strict validation (or the other way round)')
        self.require(ex, zb(n_err == 0) == ((mask.e & self.tv) != 0), 'the returned version mask contains the target version although incompatibilities are listed (or the other way round)')
        self.require(ex, (setv.variant == 'Ok') == (n_err == 0), 'set_version succeeds although the compatibility check lists incompatibilities (or fails although it lists none)')
        if setv.variant == 'Ok':
            self.require(ex, version_after.e == self.tv, 'set_version succeeded but the file does not carry the new version')
            split(reload_ok, 'set_version succeeded but the content does not load strictly as the new version')
        else:
            self.require(ex, version_after.e == self.fv, 'a failed set_version changed the version of the file')

    def value_class(self):
        """z3: CATEGORY is available in the target version and some CATEGORY value is not (first row of the item table that lists the item decides)"""
        if not self.items_used:
            return z3.BoolVal(False)
        unavailable = []
        for vi in self.items_used:
            (i0, m0), (i1, m1) = self.rows
            in0 = z3.And(i0 == vi, (m0 & self.tv) != 0)
            in1 = z3.And(i0 != vi, i1 == vi, (m1 & self.tv) != 0)
            unavailable.append(z3.Not(z3.Or(in0, in1)))
        return z3.And((self.cat_mask & self.tv) != 0, z3.Or(*unavailable))

    def replay_vals(self, m):
        ev = lambda v: m.eval(v, model_completion=True).as_long()
        fv, tv, cm = ev(self.fv), ev(self.tv), ev(self.cat_mask)
        has_cat = self.doc != 0
        elem_in_target = (cm & tv) != 0
        # availability of the first value in the target version according to the symbolic item table (first listing row decides)
        val_in_target = True
        if self.items_used:
            vi = ev(self.items_used[0])
            rows = [(ev(i), ev(k)) for i, k in self.rows]
            val_in_target = False
            for it, mk in rows:
                if it == vi:
                    val_in_target = (mk & tv) != 0
                    break
        return [[self.doc], [1 if has_cat else 0], [1 if elem_in_target else 0], [1 if val_in_target else 0], [1 if tv > fv else 0]]

    def describe(self, m):
        ev = lambda v: m.eval(v, model_completion=True).as_long()
        return (f"doc={self.doc} fileversion={ev(self.fv):#x} target={ev(self.tv):#x} category_mask={ev(self.cat_mask):#x} "
                f"item_table={[(ev(i), hex(ev(k))) for i, k in self.rows]} values={[ev(v) for v in self.items_used]}")
