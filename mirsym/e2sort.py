"""E2 harness for C14 on a small tree: the real ElementRaw::sort / Element::sort (recursive) and the real impl Ord for Element are
executed from their MIR on  P > X* > Y*  with symbolic text values; the result must be ordered w.r.t. the real comparison
evaluated on the FINAL state, must be a permutation of the input, and must not depend on the initial order."""
import itertools
import z3
from e2lib import *
from e2defs import register, REG, zand, znot, zb, mk_element, install_element_models, name_index, cdata_string, cdata_equal, string_table
from mirexec import Iter

T_P, T_X, T_Y = 10, 11, 12


def insertion_sort(ex, items, closure):
    """stable sort through the real comparison closure (is_less semantics of sort_by: Ordering::Less)"""
    out = []
    for it in items:
        pos = len(out)
        while pos > 0:
            o = ex.call_closure(closure, [Ref(Cell(it)), Ref(Cell(out[pos - 1]))])
            if o.variant == 'Less':
                pos -= 1
            else:
                break
        out.insert(pos, it)
    return out


@register
class C14Sort(E2Harness):
    """parent P with `nx` children X, child i holding ny[i] character elements Y with one symbolic letter each"""
    ny = [2, 2]
    native = ('data', 'n_c14_sort')
    max_visits = 1024
    max_steps = 400000

    def install(self, ex):
        install_element_models(ex.models)
        M = ex.models
        tab = string_table('elementname.rs')
        self.n_p = name_index('elementname.rs', b'SDGS')
        self.n_x = name_index('elementname.rs', b'SDG')
        self.n_y = name_index('elementname.rs', b'SD')

        def tid(ex_, a):
            t = ex_.deref(a) if isinstance(a, (Ref, ElemRef)) else a
            return t.fields[1].conc()

        def find_sub_element(ex_, c, a):
            t = tid(ex_, a[0])
            nm = ex_.concretize(ex_.deref(a[1]) if isinstance(a[1], (Ref, ElemRef)) else a[1], limit=8)
            child = {(T_P, self.n_x): T_X, (T_X, self.n_y): T_Y}.get((t, nm))
            if child is None:
                return NONE()
            return some(Agg('tuple', None, [Agg('ElementType', None, [mk_int(0, 'u16'), mk_int(child, 'u16')]), VecV([usize(0)])]))

        def sort_by(ex_, c, a):
            v = a[0]
            while isinstance(v, (Ref, ElemRef)):
                v = ex_.deref(v)
            if not isinstance(v, VecV):
                raise Unsupported(f'sort_by on {v!r}')
            v.items[:] = insertion_sort(ex_, list(v.items), a[1])
            return UNIT

        def into_iter_next(ex_, c, a):
            it = ex_.deref(a[0])
            if isinstance(it, VecV):
                # Vec::into_iter() is the identity in the executor: consume from the front
                if not it.items:
                    return NONE()
                return some(it.items.pop(0))
            raise Unsupported(f'IntoIter::next on {it!r}')
        adds = [
            (r'^autosar_data_specification::ElementType::content_mode$', lambda ex_, c, a: Agg('ContentMode', 'Characters' if tid(ex_, a[0]) == T_Y else 'Sequence', [])),
            (r'^autosar_data_specification::ElementType::is_ordered$', lambda ex_, c, a: False),
            (r'^autosar_data_specification::ElementType::is_named$', lambda ex_, c, a: False),
            (r'^autosar_data_specification::ElementType::find_sub_element$', find_sub_element),
            (r'^Vec::<\(Vec<usize>, Element\)>::with_capacity$', lambda ex_, c, a: VecV()),
            (r'^<Vec<\(Vec<usize>, Element\)> as DerefMut>::deref_mut$', lambda ex_, c, a: a[0]),
            (r'^std::slice::<impl \[\(Vec<usize>, Element\)\]>::sort_by::<', sort_by),
            (r'^<std::vec::IntoIter<\(Vec<usize>, Element\)> as Iterator>::next$', into_iter_next),
        ]
        for pat, fn in adds:
            M.add(pat, fn, prefer=True)
            M.rx.insert(0, M.rx.pop())

    def build(self, ex, order):
        """the tree with the X children in the given order and, inside child i, the Y values in order yorder[i]"""
        xs = []
        for i in order[0]:
            ys = [mk_element(self.n_y, T_Y, [Agg('ElementContent', 'CharacterData', [cdata_string([self.vals[i][j]])])]) for j in order[1][i]]
            xs.append(mk_element(self.n_x, T_X, [Agg('ElementContent', 'Element', [y]) for y in ys]))
        return mk_element(self.n_p, T_P, [Agg('ElementContent', 'Element', [x]) for x in xs])

    def shape(self, p):
        """content of the sorted tree as nested lists of z3 bytes"""
        raw = lambda e: e.fields[0].fields[0].cell.v.fields[0]
        out = []
        for xi in raw(p).fields[3].items:
            ys = []
            for yi in raw(xi.fields[0]).fields[3].items:
                ys.append(raw(yi.fields[0]).fields[3].items[0].fields[0].fields[0].b[0])
            out.append(ys)
        return out

    def run(self, ex):
        self.install(ex)
        ex.tbind = ['u64']
        from models import is_alpha
        self.vals = []
        for i, n in enumerate(self.ny):
            row = []
            for j in range(n):
                b = z3.BitVec(f'x{i}_y{j}', 8)
                ex.assume(z3.And(z3.UGE(b, 0x61), z3.ULE(b, 0x7a)))
                row.append(b)
            self.vals.append(row)
        f_sort = find_fn(ex.prog, '::sort', 'element.rs')
        cands = [n_ for n_ in ex.prog.raw if n_.endswith('::cmp') and 'element.rs' in n_ and 'closure' not in n_]
        f_cmp = cands[0]
        ident = (list(range(len(self.ny))), [list(range(n)) for n in self.ny])
        p1 = self.build(ex, ident)
        ex.call(f_sort, [Ref(Cell(p1))])
        # a second tree with the same content in another initial order (reversed siblings, reversed values)
        rev = (list(reversed(range(len(self.ny)))), [list(reversed(range(n))) for n in self.ny])
        p2 = self.build(ex, rev)
        ex.call(f_sort, [Ref(Cell(p2))])
        # ordered w.r.t. the real comparison on the final state
        raw = lambda e: e.fields[0].fields[0].cell.v.fields[0]
        xs = [it.fields[0] for it in raw(p1).fields[3].items]
        cmps = [ex.call(f_cmp, [Ref(Cell(xs[i])), Ref(Cell(xs[i + 1]))]).variant for i in range(len(xs) - 1)]
        # idempotence: sorting again changes nothing
        before = self.shape(p1)
        ex.call(f_sort, [Ref(Cell(p1))])
        after = self.shape(p1)
        return self.shape(p2), before, after, cmps

    def prop(self, out, ex):
        if out[0] == 'panic':
            self.require(ex, False, 'sort panicked: ' + out[1])
            return
        s2, s1, s1b, cmps = out[1]
        self.cover('sorted')
        self.require(ex, all(c != 'Greater' for c in cmps), 'after sort() a sibling compares Greater than its successor (real Element::cmp on the final state)')
        flat = lambda s: [b for ys in s for b in ys]
        same = lambda a, b: ([len(y) for y in a] == [len(y) for y in b]) and zand(*[p == q for p, q in zip(flat(a), flat(b))])
        self.require(ex, same(s1, s1b), 'sorting a sorted element again changes it (sort is not idempotent)')
        self.require(ex, same(s1, s2), 'the sorted result depends on the order the siblings had before')
        # permutation: every inner list is ordered and the multiset of values is kept (inner lists ordered non-decreasingly as text)
        for ys in s1:
            for p, q in zip(ys, ys[1:]):
                self.require(ex, z3.ULE(p, q), 'the values inside a sorted child are not in order')
        total = sorted(len(y) for y in s1)
        self.require(ex, total == sorted(self.ny), 'sort() lost or duplicated content')

    def replay_vals(self, m):
        out = [[len(self.ny)]]
        for i, row in enumerate(self.vals):
            out.append([len(row)])
            out += [[x] for x in model_bytes(m, row)]
        return out

    def describe(self, m):
        return ' | '.join(bytes(model_bytes(m, row)).decode('latin1') for row in self.vals)
