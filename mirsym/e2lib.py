"""Harness layer of engine E2 (MIR symbolic executor): program loading, value builders for the autosar-data types,
property checks with counterexample extraction."""
import json
import os
import sys
import time
import z3

sys.path.insert(0, os.path.dirname(os.path.abspath(__file__)))
from mirexec import (Program, Executor, I, F, Agg, Slice, Str, VecV, Cell, Ref, ElemRef, Opaque, UNIT, Panic, Unsupported,
                     BoundExceeded, Infeasible, mk_int, usize, bv)
from models import Models, as_bytes_list, bytes_eq, some, NONE, ok, err

REPO = os.environ.get('VERIF_REPO', '/repo')


def load_program(mirdir):
    prog = Program()
    for f in ('data.mir', 'spec.mir'):
        p = os.path.join(mirdir, f)
        if os.path.exists(p):
            prog.load_mir(open(p, encoding='utf-8', errors='replace').read(), with_allocs=(f == 'spec.mir'))
    for f in ('lib.rs', 'parser.rs', 'lexer.rs', 'chardata.rs'):
        prog.load_enums_from_source(os.path.join(REPO, 'autosar-data', 'src', f))
    prog.load_enums_from_source(os.path.join(REPO, 'autosar-data-specification', 'src', 'lib.rs'))
    return prog


def find_fn(prog, suffix, contains=None):
    c = [n for n in prog.raw if n.endswith(suffix) and (contains is None or contains in n)]
    if len(c) != 1:
        raise Unsupported(f'function *{suffix} ({contains}): {len(c)} candidates {c[:4]}')
    return c[0]


# ---- value builders ---------------------------------------------------------------------------------------
def sym_bytes(name, n):
    return [z3.BitVec(f'{name}{i}', 8) for i in range(n)]


def mk_parser(strict, line):
    """parser::ArxmlParser in the middle of a document (field order = declaration order in parser.rs)"""
    return Agg('ArxmlParser', None, [
        Opaque('PathBuf'),             # filename
        line,                          # line
        Slice([], 0, 0),               # buffer
        mk_int(1, 'u32'),              # fileversion (replaced by harnesses that need it)
        mk_int(0, 'u16'),              # current_element
        strict,                        # strict
        mk_int(0xffffffff, 'u32'),     # version_compatibility
        VecV(), VecV(), VecV(),        # identifiables, references, warnings
        NONE(),                        # standalone
    ])


P_LINE, P_FILEVERSION, P_STRICT, P_WARNINGS = 1, 3, 5, 9


def spec_string(preserve, max_length=None):
    ml = some(usize(max_length)) if max_length is not None else NONE()
    return Agg('CharacterDataSpec', 'String', [preserve, ml])


def spec_pattern(check_fn, max_length=None):
    ml = some(usize(max_length)) if max_length is not None else NONE()
    from mirexec import str_slice
    return Agg('CharacterDataSpec', 'Pattern', [check_fn, str_slice(b'<regex>'), ml])


def spec_enum(rows):
    """rows: [(item I u16, mask I u32)]"""
    items = [Agg('tuple', None, [it, mask]) for it, mask in rows]
    return Agg('CharacterDataSpec', 'Enum', [Slice(items, 0, len(items), False)])


def spec_uint():
    return Agg('CharacterDataSpec', 'UnsignedInteger', [])


def spec_float():
    return Agg('CharacterDataSpec', 'Float', [])


def cdata_string(bytes_):
    return Agg('CharacterData', 'String', [Str(bytes_)])


def err_parts(e):
    """AutosarDataError::ParserError{filename,line,source} -> (line I, source Agg)"""
    if isinstance(e, Agg) and e.ty == 'AutosarDataError' and e.variant == 'ParserError':
        return e.fields[1], e.fields[2]
    raise Unsupported(f'unexpected error value {e!r}')


# ---- check infrastructure ---------------------------------------------------------------------------------
class Violation(Exception):
    pass


class E2Harness:
    """one decision problem: explore all feasible paths of `run`, check `prop` on every path"""
    name = ''
    functions = []
    bound = ''
    claim = ''
    native = None          # (crate key, native replay harness name)
    max_paths = 400000
    max_visits = 64
    bound_is_hang = False

    def __init__(self):
        self.violations = []
        self.known_hits = {}
        self.covers = {}
        self.inconclusive = []
        self.samples = []

    # to be provided by subclasses
    def run(self, ex):
        raise NotImplementedError

    def prop(self, out, ex):
        pass

    def replay_vals(self, model):
        """[[bytes]] in the order the native replay harness pops them"""
        return []

    # helpers ----------------------------------------------------------------------------------------
    def cover(self, key):
        self.covers[key] = self.covers.get(key, 0) + 1

    def require(self, ex, cond, msg, known_key=None, classify=None):
        """cond (z3 Bool / bool) must hold on this path for ALL inputs that take it"""
        if isinstance(cond, bool):
            bad = not cond
            neg = None
        else:
            neg = z3.simplify(z3.Not(cond))
            if z3.is_false(neg):
                return True
            r = ex.check(neg)
            if r == 'unknown':
                self.inconclusive.append('solver unknown on: ' + msg)
                return True
            bad = (r == 'sat')
        if not bad:
            return True
        m = ex.model_for(neg)
        if classify is not None and m is not None:
            known_key = classify(m)       # the recorded class is decided on the counterexample itself
        vals = self.replay_vals(m) if m is not None else []
        rec = dict(msg=msg, vals=vals, input=self.describe(m) if m is not None else '')
        if known_key is not None and known_key in self.known:
            self.known_hits.setdefault(known_key, rec)
            return False
        if len(self.violations) < 8:
            self.violations.append(rec)
        if len(self.violations) >= 8:
            ex.stop_requested = True
        return False

    def describe(self, m):
        return ''

    def execute(self, prog, known=()):
        self.known = set(known)
        ex = Executor(prog, Models(), max_visits=self.max_visits, max_steps=getattr(self, 'max_steps', 20000))
        self.ex = ex
        t0 = time.time()
        status = 'pass'
        detail = ''

        def on_path(out, ex):
            if out[0] == 'bound':
                if self.bound_is_hang and 'visited more than' in out[1]:
                    # the input has at most n bytes and every loop of the code under check must consume input: a loop head
                    # visited more than max_visits (>> n) times is reported as non-termination and replayed natively with a time limit
                    self.cover('bound')
                    self.require(ex, False, 'does not terminate: ' + out[1])
                    self.hang = True
                    return
                self.inconclusive.append('bound exceeded: ' + out[1])
                return
            try:
                self.prop(out, ex)
            except Unsupported as u:
                self.inconclusive.append('unsupported in property: ' + str(u))
        try:
            complete = ex.explore(self.run, on_path, max_paths=self.max_paths)
            if not complete and not self.violations:
                self.inconclusive.append('path exploration incomplete (bound or path limit)')
        except Unsupported as u:
            self.inconclusive.append('unsupported: ' + str(u))
        except z3.Z3Exception as z:
            self.inconclusive.append('z3: ' + str(z))
        if self.violations:
            status = 'fail'
        elif self.inconclusive:
            status = 'inconclusive'
        return dict(
            harness=self.name, status=status, violations=self.violations, known_hits=self.known_hits,
            inconclusive=sorted(set(self.inconclusive))[:10], covers=self.covers,
            stats=dict(ex.stats, wall_s=round(time.time() - t0, 2)),
            functions_executed=sorted(ex.functions_executed), models_used=sorted(ex.models_used),
            samples=self.samples[:5], hang=getattr(self, 'hang', False),
        )


def model_bytes(m, terms):
    out = []
    for t in terms:
        v = m.eval(t, model_completion=True)
        out.append(v.as_long() if z3.is_bv_value(v) else 0)
    return out


def le_bytes(v, n):
    return [(v >> (8 * i)) & 0xff for i in range(n)]
