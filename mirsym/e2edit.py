"""E2 harnesses for the editing kernels of autosar-data/src/elementraw.rs (C07: insertion range is exact; C12: no panic from any
state a load can produce).  One step from an arbitrary state: the content of the parent element is a symbolic sequence of
sub-elements, the answers of the specification crate are symbolic (a small abstract content model, see SCHEMA below)."""
import z3
from e2lib import *
from e2defs import register, REG, zand, znot, mk_element
from mirexec import str_slice

# Abstract content model of the parent element (three group levels, as deep as the pairwise rules of the code can distinguish):
#   top group (mode M0) = [ A , G = group (mode M1) [ B , H = group (mode M2) [ C , E ] ] , D , A' ]
# index vectors as the specification crate reports them: A=[0], B=[1,0], C=[1,1,0], E=[1,1,1], D=[2].
# The NAME A is listed twice (the specification does that when an element moved between versions): entry A=[0] and entry A'=[3];
# which entry the file's version selects is symbolic (`a_late`); a lookup in ALL versions returns the first entry.
NAMES = 'ABCED'
N = len(NAMES)
BASE_INDICES = {0: [0], 1: [1, 0], 2: [1, 1, 0], 3: [1, 1, 1], 4: [2]}
LATE_A = [3]
T_PARENT, T_CHILD = 1, 2
MODES0 = ['Sequence', 'Choice', 'Bag']
MODES1 = ['Sequence', 'Choice']
MULTS = ['ZeroOrOne', 'One', 'Any']
SCHEMA = ('abstract content model: top group (mode symbolic in Sequence/Choice/Bag) = [A, group G (mode symbolic in Sequence/Choice) [B, group H (mode symbolic in Sequence/Choice) [C, E]], D, A\']; '
          'the name A is listed twice (positions 0 and 3) and the file version selects which one (symbolic); '
          'multiplicity of each of A..E symbolic in ZeroOrOne/One/Any; availability of each of A..E in the file version symbolic')


def lex_cmp(a, b):
    return (a > b) - (a < b)


def common_level(a, b):
    """depth of the deepest group that contains both index vectors (0 = top, 1 = G, 2 = H)"""
    lvl = 0
    while lvl < len(a) - 1 and lvl < len(b) - 1 and a[lvl] == b[lvl]:
        lvl += 1
    return lvl


@register
class EditInsert(E2Harness):
    """calc_element_insert_range / create_sub_element_at on a parent with k existing sub-elements"""
    k = 2
    part = None
    mode = 'range'           # range: C07 (states built by editing: valid order, all available) | total: C12 (any state a load can produce)
    native = ('data', 'n_edit_insert')
    max_visits = 256
    max_steps = 100000

    # ---- symbolic choices ----------------------------------------------------------------------------
    def pick(self, ex, name, options):
        v, opts = self.choices[name]
        return options[ex.concretize(I(v, False, 'u8'), limit=len(options) + 1)]

    def name_of(self, ex, v):
        v = ex.deref(v) if isinstance(v, (Ref, ElemRef)) else v
        return ex.concretize(v, limit=8)

    def indices(self, n, all_versions=False):
        if n == 0 and self.a_late_c and not all_versions:
            return LATE_A
        return BASE_INDICES[n]

    def name_at(self, x):
        if x == LATE_A:
            return 0
        return [k_ for k_, v_ in BASE_INDICES.items() if v_ == x][0]

    def mode_of_level(self, ex_, lvl):
        return self.pick(ex_, f'mode{lvl}', MODES0 if lvl == 0 else MODES1)

    def install(self, ex):
        M = ex.models
        h = self

        def find_sub_element(ex_, c, a):
            n = h.name_of(ex_, a[1])
            ver = ex_.concretize(a[2])
            if n >= N:
                return NONE()
            every = ver == 0xffffffff
            if not every and not ex_.decide(h.avail[n]):
                return NONE()
            return some(Agg('tuple', None, [Agg('ElementType', None, [mk_int(0, 'u16'), mk_int(T_CHILD, 'u16')]), VecV([usize(i) for i in h.indices(n, every)])]))

        def idx_list(ex_, v):
            while isinstance(v, (Ref, ElemRef)):
                v = ex_.deref(v)
            items = v.items if isinstance(v, VecV) else v.items()
            return [x.conc() for x in items]

        def common_group(ex_, c, a):
            x, y = idx_list(ex_, a[1]), idx_list(ex_, a[2])
            return Agg('GroupType', None, [mk_int(common_level(x, y), 'u16')])

        def group_mode(ex_, c, a):
            g = ex_.deref(a[0]) if isinstance(a[0], (Ref, ElemRef)) else a[0]
            return Agg('ContentMode', h.mode_of_level(ex_, g.fields[0].conc()), [])

        def multiplicity(ex_, c, a):
            n = h.name_at(idx_list(ex_, a[1]))
            return some(Agg('ElementMultiplicity', h.pick(ex_, f'mult{n}', MULTS), []))

        def vec_cmp(ex_, c, a):
            r = lex_cmp(idx_list(ex_, a[0]), idx_list(ex_, a[1]))
            return Agg('Ordering', {-1: 'Less', 0: 'Equal', 1: 'Greater'}[r], [])

        def container_mode(ex_, c, a):
            x = idx_list(ex_, a[1])
            return Agg('ContentMode', h.mode_of_level(ex_, len(x) - 1), [])

        def slice_eq(ex_, c, a):
            return (idx_list(ex_, a[0]) == idx_list(ex_, a[1])) == (not c.endswith('ne'))
        adds = [
            (r'^autosar_data_specification::ElementType::find_sub_element$', find_sub_element),
            (r'^autosar_data_specification::ElementType::find_common_group$', common_group),
            (r'^(autosar_data_specification::)?GroupType::content_mode$', group_mode),
            (r'^autosar_data_specification::ElementType::content_mode$', lambda ex_, c, a: Agg('ContentMode', h.mode_of_level(ex_, 0), [])),
            (r'^autosar_data_specification::ElementType::get_sub_element_multiplicity$', multiplicity),
            (r'^autosar_data_specification::ElementType::get_sub_element_container_mode$', container_mode),
            (r'^autosar_data_specification::ElementType::is_named_in_version$', lambda ex_, c, a: False),
            (r'^autosar_data_specification::ElementType::is_ordered$', lambda ex_, c, a: False),
            (r'^<ElementMultiplicity as PartialEq>::(eq|ne)$', lambda ex_, c, a: (ex_.deref(a[0]).variant == ex_.deref(a[1]).variant) == c.endswith('eq')),
            (r'^<Vec<usize> as Ord>::cmp$', vec_cmp),
            (r'^<Vec<usize> as PartialEq>::(eq|ne)$', slice_eq),
            (r'^<\[usize\] as PartialEq>::(eq|ne)$', slice_eq),
            (r'^<&\[usize\] as PartialEq>::(eq|ne)$', slice_eq),
            (r'^std::sync::Arc::<.*>::new$', lambda ex_, c, a: Agg('Arc', None, [Ref(Cell(a[0]))])),
            (r'^parking_lot::lock_api::RwLock::<.*>::new$', lambda ex_, c, a: Agg('RwLock', None, [a[0]])),
            (r'^std::collections::HashSet::<.*>::with_capacity$', lambda ex_, c, a: Opaque('HashSet')),
        ]
        for pat, fn in adds:
            M.add(pat, fn, prefer=True)
            M.rx.insert(0, M.rx.pop())

    # ---- reference semantics -------------------------------------------------------------------------
    def sel(self, name, options, value):
        """z3 condition: the symbolic choice `name` has the given value"""
        v, opts = self.choices[name]
        return v == opts.index(value)

    def valid(self, seq):
        """the sub-element sequence conforms to the abstract content model (order, exclusive alternatives, multiplicities, availability)"""
        conds = []
        bag0 = self.sel('mode0', MODES0, 'Bag')
        for i in range(len(seq)):
            conds.append(self.avail[seq[i]])
            for j in range(i + 1, len(seq)):
                a, b = self.indices(seq[i]), self.indices(seq[j])
                lvl = common_level(a, b)
                opts = MODES0 if lvl == 0 else MODES1
                seqm = self.sel(f'mode{lvl}', opts, 'Sequence')
                chm = self.sel(f'mode{lvl}', opts, 'Choice')
                pair = []
                if lex_cmp(a, b) > 0:
                    pair.append(z3.Not(seqm))            # out of order in a sequence group
                if a != b:
                    pair.append(z3.Not(chm))             # two different alternatives of one choice group
                else:
                    pair.append(self.sel(f'mult{seq[i]}', MULTS, 'Any'))   # repetition needs multiplicity Any
                # a Bag at the top allows any number of anything in any order (the specification nests no group inside a Bag)
                conds.append(z3.Or(bag0, z3.And(*pair)) if pair else True)
        return zand(*conds) if conds else True

    # ---- run -------------------------------------------------------------------------------------------
    def run(self, ex):
        self.ex = ex
        self.choices = {}
        self.avail = [z3.Bool(f'available_{NAMES[i]}') for i in range(N)]
        self.a_late = z3.Bool('version_selects_late_entry_of_A')
        self.install(ex)
        for name, options in [('mode0', MODES0), ('mode1', MODES1), ('mode2', MODES1)] + [(f'mult{i}', MULTS) for i in range(N)]:
            v = z3.BitVec(name, 8)
            ex.assume(z3.ULT(v, len(options)))
            self.choices[name] = (v, options)
        k = self.k
        self.names = [z3.BitVec(f'existing{i}', 16) for i in range(k)]
        self.new = z3.BitVec('new_name', 16)
        self.pos = z3.BitVec('position', 64)
        for v in self.names + [self.new]:
            ex.assume(z3.ULT(v, N))
        ex.assume(z3.ULE(self.pos, k + 1))
        # all names concrete on each path (the index vectors are concrete shapes)
        seq = [ex.concretize(I(v, False, 'u16'), limit=8) for v in self.names]
        new = ex.concretize(I(self.new, False, 'u16'), limit=8)
        self.seq, self.newc = seq, new
        if self.part is not None:
            # partition i of n by the new name and the first two existing names (a split of the enumeration of concrete shapes only)
            comb = new + N * (seq[0] if k > 0 else 0) + N * N * (seq[1] if k > 1 else 0)
            if comb % self.part[1] != self.part[0]:
                raise Infeasible()
        self.a_late_c = ex.decide(self.a_late) if (0 in seq or new == 0) else False
        if self.mode == 'range':
            ex.assume(self.valid(seq))
        subs = [Agg('ElementContent', 'Element', [mk_element(n, T_CHILD, [])]) for n in seq]
        self.subs = subs
        parent = mk_element(99, T_PARENT, subs)
        raw_cell = parent.fields[0].fields[0].cell
        self.parent_raw = raw_cell.v.fields[0]
        f_range = find_fn(ex.prog, '::calc_element_insert_range', 'elementraw.rs')
        f_at = find_fn(ex.prog, '::create_sub_element_at', 'elementraw.rs')
        version = mk_int(0x1000, 'u32')           # AutosarVersion discriminant = its bit; which one is irrelevant to the abstract answers
        rng = ex.call(f_range, [Ref(Cell(self.parent_raw)), mk_int(new, 'u16'), version])
        before = list(self.parent_raw.fields[3].items)
        created = ex.call(f_at, [Ref(Cell(self.parent_raw)), Opaque('WeakElement'), mk_int(new, 'u16'), I(self.pos, False, 'usize'), version])
        return rng, created, before

    def prop(self, out, ex):
        if out[0] == 'panic':
            self.cover('panic')
            self.require(ex, False, 'panic: ' + out[1])
            return
        rng, created, before = out[1]
        k = self.k
        seq, new = self.seq, self.newc
        after = list(self.parent_raw.fields[3].items)
        if self.mode == 'total':
            self.cover('returns')
            # C12/C11 at the kernel: a failing call leaves the content as it was
            if created.variant == 'Err':
                self.require(ex, len(after) == len(before) and all(x is y for x, y in zip(after, before)), 'a failed create_sub_element_at changed the content')
            return
        okv = [self.valid(seq[:p] + [new] + seq[p:]) for p in range(k + 1)]
        if rng.variant == 'Ok':
            self.cover('range Ok')
            s, e = rng.fields[0].fields[0], rng.fields[0].fields[1]
            for p in range(k + 1):
                inr = z3.And(z3.ULE(s.e, p), z3.ULE(p, e.e))
                self.require(ex, inr == okv[p], f'position {p} is inside the reported insertion range but breaks the content model, or is outside and keeps it')
            self.require(ex, z3.ULE(e.e, k), 'the reported range ends beyond the content')
            inr = z3.And(z3.ULE(s.e, self.pos), z3.ULE(self.pos, e.e))
            self.require(ex, inr == (created.variant == 'Ok'), 'create_sub_element_at succeeds outside the reported range or fails inside it')
        else:
            self.cover('range Err')
            for p in range(k + 1):
                self.require(ex, znot(okv[p]), f'no insertion range is reported although position {p} keeps the content model')
            self.require(ex, created.variant == 'Err', 'create_sub_element_at succeeds although no insertion range is reported')
        if created.variant == 'Ok':
            self.cover('created')
            p = ex.concretize(I(self.pos, False, 'usize'), limit=k + 3)
            good = len(after) == k + 1 and all(x is y for x, y in zip(after[:p] + after[p + 1:], before))
            if good:
                item = after[p]
                good = item.variant == 'Element' and item.fields[0].fields[0].fields[0].cell.v.fields[0].fields[1].conc() == new
            self.require(ex, good, 'create_sub_element_at did not insert exactly one new element of the requested name at the requested position')
        else:
            self.require(ex, len(after) == len(before) and all(x is y for x, y in zip(after, before)), 'a failed create_sub_element_at changed the content')

    # ---- replay / description ---------------------------------------------------------------------------
    def chosen(self, m, name, options):
        return m.eval(self.choices[name][0], model_completion=True).as_long() % len(options)

    def replay_vals(self, m):
        ev = lambda v: m.eval(v, model_completion=True).as_long()
        vals = [[0 if self.mode == 'range' else 1], [self.k]] + [[ev(v)] for v in self.names] + [[ev(self.new)], le_bytes(ev(self.pos), 8)]
        vals += [[self.chosen(m, 'mode0', MODES0)], [self.chosen(m, 'mode1', MODES1)], [self.chosen(m, 'mode2', MODES1)]]
        vals += [[self.chosen(m, f'mult{i}', MULTS)] for i in range(N)]
        vals += [[1 if z3.is_true(m.eval(a, model_completion=True)) else 0] for a in self.avail]
        vals += [[1 if z3.is_true(m.eval(self.a_late, model_completion=True)) else 0]]
        return vals

    def describe(self, m):
        ev = lambda v: m.eval(v, model_completion=True).as_long()
        return (f"content={[NAMES[ev(v)] for v in self.names]} new={NAMES[ev(self.new)]} position={ev(self.pos)} "
                f"top={MODES0[self.chosen(m, 'mode0', MODES0)]} G={MODES1[self.chosen(m, 'mode1', MODES1)]} H={MODES1[self.chosen(m, 'mode2', MODES1)]} "
                f"mult={[MULTS[self.chosen(m, f'mult{i}', MULTS)] for i in range(N)]} "
                f"available={[z3.is_true(m.eval(a, model_completion=True)) for a in self.avail]} "
                f"A_at_late_position={z3.is_true(m.eval(self.a_late, model_completion=True))}")
