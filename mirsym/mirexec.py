"""Symbolic executor for rustc MIR (text form), KLEE style, on z3.

* shapes (lengths, positions, enum variants, control flow) are concrete on every path, data (bytes, integers, chars, floats)
  are z3 terms; a branch on a symbolic condition asks the solver whether each side is feasible under the path condition and
  explores every feasible side (depth-first, by deterministic re-execution along a recorded decision prefix - no state cloning);
* a path ends with a return value, with a Rust panic (failed `assert` terminator, slice index, unwrap ...) or because a bound
  was exceeded (reported, never ignored);
* every branch taken adds its condition to the path condition; when a path ends the harness' property is checked by the solver
  under that path condition (unsat negation = holds for ALL inputs that take this path).
All inputs of the stated shape are covered when every feasible path has been explored (the executor says so explicitly).
"""
import re
import z3
from mirparse import (Func, Unsupported, parse_functions, parse_statement, parse_terminator, split_top, parse_allocs)


class Panic(Exception):
    def __init__(self, msg):
        super().__init__(msg)
        self.msg = msg


class BoundExceeded(Exception):
    pass


class Infeasible(Exception):
    pass


# ------------------------------------------------------------------------------------------------------
# values
# ------------------------------------------------------------------------------------------------------
class I:
    """integer / char: z3 bit-vector + signedness"""
    __slots__ = ('e', 'signed', 'ty')

    def __init__(self, e, signed=False, ty=None):
        self.e = e
        self.signed = signed
        self.ty = ty

    @property
    def bits(self):
        return self.e.size()

    def conc(self):
        e = z3.simplify(self.e)
        if z3.is_bv_value(e):
            v = e.as_long()
            if self.signed and v >= 1 << (self.bits - 1):
                v -= 1 << self.bits
            return v
        return None

    def __repr__(self):
        c = self.conc()
        return f'I({c if c is not None else self.e})'


class F:
    __slots__ = ('e',)

    def __init__(self, e):
        self.e = e


class Unit:
    def __repr__(self):
        return '()'


UNIT = Unit()


class Agg:
    """tuple / struct / enum value. variant: None for structs and tuples, else the variant NAME"""
    __slots__ = ('ty', 'variant', 'fields')

    def __init__(self, ty, variant, fields):
        self.ty = ty
        self.variant = variant
        self.fields = fields

    def __repr__(self):
        return f'{self.ty}::{self.variant}{self.fields}' if self.variant else f'{self.ty}{self.fields}'


class Slice:
    """&[T] / &str: a window into an immutable python list"""
    __slots__ = ('buf', 'off', 'len', 'is_str')

    def __init__(self, buf, off, ln, is_str=False):
        self.buf = buf
        self.off = off
        self.len = ln
        self.is_str = is_str

    def items(self):
        return self.buf[self.off:self.off + self.len]

    def sub(self, a, b):
        return Slice(self.buf, self.off + a, b - a, self.is_str)

    def __repr__(self):
        return f'Slice(len={self.len})'


class Str:
    """owned String / Vec<u8>: python list of 8-bit z3 terms"""
    __slots__ = ('b',)

    def __init__(self, b=None):
        self.b = list(b or [])


class VecV:
    __slots__ = ('items', 'ty')

    def __init__(self, items=None, ty='Vec'):
        self.items = list(items or [])
        self.ty = ty


class Cell:
    __slots__ = ('v',)

    def __init__(self, v=None):
        self.v = v


class Ref:
    """reference / pointer to (part of) a cell"""
    __slots__ = ('cell', 'path')

    def __init__(self, cell, path=()):
        self.cell = cell
        self.path = tuple(path)


class ElemRef:
    """&T into a slice"""
    __slots__ = ('slice', 'idx')

    def __init__(self, sl, idx):
        self.slice = sl
        self.idx = idx


class Closure:
    __slots__ = ('span', 'caps')

    def __init__(self, span, caps):
        self.span = span
        self.caps = caps


class Opaque:
    """a value whose content the executed code never inspects (PathBuf, Utf8Error, ...)"""
    __slots__ = ('what',)

    def __init__(self, what):
        self.what = what

    def __repr__(self):
        return f'Opaque({self.what})'


class Iter:
    """slice::Iter / Chars / Split state"""
    __slots__ = ('kind', 'slice', 'pos', 'extra')

    def __init__(self, kind, sl, pos=0, extra=None):
        self.kind = kind
        self.slice = sl
        self.pos = pos
        self.extra = extra


def bv(v, bits):
    return z3.BitVecVal(v, bits)


INT_TYPES = {'u8': (8, False), 'u16': (16, False), 'u32': (32, False), 'u64': (64, False), 'usize': (64, False), 'u128': (128, False),
             'i8': (8, True), 'i16': (16, True), 'i32': (32, True), 'i64': (64, True), 'isize': (64, True), 'i128': (128, True),
             'char': (32, False)}


def mk_int(v, ty):
    bits, signed = INT_TYPES[ty]
    return I(bv(v, bits), signed, ty)


def usize(v):
    return I(bv(v, 64), False, 'usize')


def u8v(v):
    return bv(v, 8)


def lit_bytes(s):
    return [u8v(b) for b in s]


def str_slice(pybytes):
    return Slice(lit_bytes(pybytes), 0, len(pybytes), True)


# ------------------------------------------------------------------------------------------------------
# the executor
# ------------------------------------------------------------------------------------------------------
class Program:
    """all functions of one or more MIR dumps + source-derived enum layouts"""

    def __init__(self):
        self.raw = {}
        self.funcs = {}
        self.by_last = {}
        self.closures = {}
        self.enums = {}      # enum name -> {variant name: discriminant}
        self.impl_type = {}  # 'file:line' -> type name of the impl block
        self.allocs = {}

    def load_mir(self, text, with_allocs=False):
        if with_allocs:
            self.allocs.update(parse_allocs(text))
        fns = parse_functions(text)
        for name, tup in fns.items():
            self.raw[name] = tup
            last = name.split('::')[-1]
            if last.startswith('{closure#'):
                args = tup[1]
                if args:
                    m = re.search(r'\{closure@[^}]*\}', args[0][1])
                    if m:
                        self.closures[m.group(0)] = name
            else:
                self.by_last.setdefault(last, []).append(name)

    def func(self, name):
        if name not in self.funcs:
            nm, args, ret, body = self.raw[name]
            self.funcs[name] = Func(nm, args, ret, body)
        return self.funcs[name]

    def load_enums_from_source(self, path):
        src = open(path, encoding='utf-8').read()
        src_nc = re.sub(r'//[^\n]*', '', src)
        for m in re.finditer(r'\benum (\w+)\s*(?:<[^>{]*>)?\s*\{', src_nc):
            name = m.group(1)
            i = m.end()
            depth = 1
            j = i
            while depth:
                c = src_nc[j]
                if c == '{':
                    depth += 1
                elif c == '}':
                    depth -= 1
                j += 1
            body = src_nc[i:j - 1]
            body = re.sub(r'#\s*\[[^\]]*\]', '', body)
            variants = {}
            nxt = 0
            for part in split_top(body):
                part = part.strip()
                if not part:
                    continue
                mm = re.match(r'^(\w+)', part)
                if not mm:
                    continue
                vname = mm.group(1)
                me = re.search(r'=\s*(0x[0-9a-fA-F_]+|\d[\d_]*)\s*$', part)
                if me:
                    nxt = int(me.group(1).replace('_', ''), 0)
                variants[vname] = nxt
                nxt += 1
            self.enums[name] = variants

    def resolve(self, callee):
        """map a call-site path to a function of the dump (or None)"""
        if callee in self.raw:
            return callee
        c = re.sub(r'::<(?!impl )[^:]*?>(?=::|$)', '', callee)   # drop turbofish segments (not `<impl T>` path segments)
        if c in self.raw:
            return c
        m = re.match(r'^<(.*) as (.*)>::(\w+)$', callee)
        if m:
            ty, method = m.group(1), m.group(3)
            tyname = re.sub(r'<.*', '', ty.split('::')[-1]).strip('&').strip()
            return self._pick(method, tyname)
        parts = c.split('::')
        if len(parts) >= 2:
            method = parts[-1]
            mi = re.match(r'^<impl (?:.* for )?([\w:]+).*>$', parts[-2])
            tyname = mi.group(1).split('::')[-1] if mi else re.sub(r'<.*', '', parts[-2])
            return self._pick(method, tyname)
        return self._pick(c, None)

    def _pick(self, method, tyname):
        cands = self.by_last.get(method, [])
        if not cands:
            return None
        if tyname is None:
            return cands[0] if len(cands) == 1 and '<impl' not in cands[0] else None
        out = []
        for n in cands:
            t = self.impl_self_type(n)
            if t == tyname:
                out.append(n)
        if len(out) == 1:
            return out[0]
        if len(out) > 1:
            # trait impl vs inherent impl with same method name: prefer the one whose header mentions the trait? keep first
            return out[0]
        return None

    def impl_self_type(self, fname):
        m = re.search(r'<impl at ([^:>]+):(\d+):\d+: \d+:\d+>', fname)
        if not m:
            return None
        key = (m.group(1), int(m.group(2)))
        if key not in self.impl_type:
            t = None
            try:
                import os
                root = os.environ.get('VERIF_REPO', '/repo')
                lines = open(os.path.join(root, key[0]), encoding='utf-8').read().split('\n')
                ln = lines[key[1] - 1]
                mm = re.match(r'^\s*(?:unsafe )?impl(?:<[^>]*>)?\s+(?:(.+?)\s+for\s+)?([\w:]+)', ln)
                if mm:
                    t = mm.group(2).split('::')[-1]
                elif '#[derive' in ln:
                    # derived impl: the span is the derive attribute, the type follows
                    for nxt in lines[key[1]:key[1] + 12]:
                        md = re.match(r'^\s*(?:pub(?:\([^)]*\))? )?(?:enum|struct) (\w+)', nxt)
                        if md:
                            t = md.group(1)
                            break
            except Exception:
                t = None
            self.impl_type[key] = t
        return self.impl_type[key]


class Frame:
    __slots__ = ('func', 'locals')

    def __init__(self, func):
        self.func = func
        self.locals = {}


class Executor:
    def __init__(self, prog, models, max_steps=20000, max_visits=64, timeout_ms=60000):
        self.prog = prog
        self.models = models
        self.solver = z3.Solver()
        self.solver.set('timeout', timeout_ms)
        self.max_steps = max_steps
        self.max_visits = max_visits
        self.stats = dict(paths=0, decisions=0, solver_checks=0, solver_s=0.0, steps=0, infeasible_cut=0, unknown=0)
        self._stmt_cache = {}
        self._term_cache = {}
        self.concrete = None     # {z3 const name: int} -> concrete evaluation mode (translator validation)
        self.functions_executed = set()
        self.models_used = set()
        self.tbind = []          # stack of bindings for the type parameter T of generic crate functions

    # ---- path exploration by re-execution ---------------------------------------------------------
    def explore(self, run, on_path, max_paths=200000):
        """run(ex) builds inputs, executes, returns an outcome object; on_path(outcome, ex) checks the property on that path.
        Explores all feasible decision sequences."""
        work = [[]]
        complete = True
        while work:
            prefix = work.pop()
            self.prefix = prefix
            self.trace = []
            self.pc = []
            self.pending = []
            self.cur_model = None
            self.solver.push()
            self.steps = 0
            try:
                try:
                    out = ('ok', run(self))
                except Panic as p:
                    out = ('panic', p.msg)
                except BoundExceeded as b:
                    out = ('bound', str(b))
                    complete = False
                except Infeasible:
                    out = None
                if out is not None:
                    self.stats['paths'] += 1
                    on_path(out, self)
            finally:
                self.solver.pop()
            for alt in self.pending:
                work.append(alt)
            if self.stats['paths'] >= max_paths:
                complete = False
                break
            if getattr(self, 'stop_requested', False):
                # enough counterexamples collected: the verdict is already 'fail'
                complete = False
                break
        return complete and not work

    def check(self, cond):
        """is cond satisfiable under the current path condition? returns 'sat'/'unsat'/'unknown'"""
        import time
        t0 = time.time()
        self.solver.push()
        self.solver.add(cond)
        r = self.solver.check()
        self.solver.pop()
        self.stats['solver_checks'] += 1
        self.stats['solver_s'] += time.time() - t0
        if r == z3.unknown:
            self.stats['unknown'] += 1
        return str(r)

    def check_model(self, cond):
        import time
        t0 = time.time()
        self.solver.push()
        self.solver.add(cond)
        r = self.solver.check()
        m = self.solver.model() if r == z3.sat else None
        self.solver.pop()
        self.stats['solver_checks'] += 1
        self.stats['solver_s'] += time.time() - t0
        if r == z3.unknown:
            self.stats['unknown'] += 1
        return str(r), m

    def model_for(self, extra=None):
        self.solver.push()
        if extra is not None:
            self.solver.add(extra)
        r = self.solver.check()
        m = self.solver.model() if r == z3.sat else None
        self.solver.pop()
        return m

    def decide(self, cond):
        """branch on a z3 Bool (or python bool); returns the python truth value for this path"""
        if isinstance(cond, bool):
            return cond
        cond = z3.simplify(cond)
        if z3.is_true(cond):
            return True
        if z3.is_false(cond):
            return False
        if self.concrete is not None:
            return self.eval_concrete_bool(cond)
        k = len(self.trace)
        if k < len(self.prefix):
            val = self.prefix[k]
            if not isinstance(val, bool):
                raise Unsupported('re-execution diverged: a value choice is recorded where a branch decision is made')
            self.trace.append(val)
            c = cond if val else z3.Not(cond)
            self.pc.append(c)
            self.solver.add(c)
            self.cur_model = None
            return val
        self.stats['decisions'] += 1
        # concolic shortcut: a model of the path condition already witnesses one side of the branch
        mdl = getattr(self, 'cur_model', None)
        m_true = m_false = None
        if mdl is not None:
            try:
                mv = mdl.eval(cond, model_completion=True)
                if z3.is_true(mv):
                    m_true = mdl
                elif z3.is_false(mv):
                    m_false = mdl
            except z3.Z3Exception:
                pass
        if m_true is not None:
            st = 'sat'
        else:
            st, m_true = self.check_model(cond)
        if m_false is not None:
            sf = 'sat'
        else:
            sf, m_false = self.check_model(z3.Not(cond))
        if st == 'unknown' or sf == 'unknown':
            raise BoundExceeded('solver returned unknown on a branch condition')
        if st == 'sat' and sf == 'sat':
            self.pending.append(self.trace + [False])
            val = True
        elif st == 'sat':
            val = True
        elif sf == 'sat':
            val = False
        else:
            raise Infeasible()
        self.cur_model = m_true if val else m_false
        self.trace.append(val)
        c = cond if val else z3.Not(cond)
        self.pc.append(c)
        self.solver.add(c)
        return val

    def eval_concrete_bool(self, cond):
        sub = [(z3.BitVec(n, b), z3.BitVecVal(v, b)) for (n, b), v in self.concrete.items()]
        r = z3.simplify(z3.substitute(cond, *sub))
        if z3.is_true(r):
            return True
        if z3.is_false(r):
            return False
        raise Unsupported(f'concrete evaluation left a symbolic condition: {r}')

    def assume(self, cond):
        if isinstance(cond, bool):
            if not cond:
                raise Infeasible()
            return
        if not self.decide(cond):
            raise Infeasible()

    def concretize(self, iv, limit=64):
        """make an integer concrete on this path (forks over its feasible values).  The value chosen is RECORDED in the decision
        trace, so that the re-execution along a prefix is deterministic (a solver model may differ between two runs)."""
        c = iv.conc()
        if c is not None:
            return c
        for _ in range(limit):
            k = len(self.trace)
            if k < len(self.prefix):
                ent = self.prefix[k]
                if not isinstance(ent, tuple):
                    raise Unsupported('re-execution diverged: a branch decision is recorded where a value choice is made')
                _, v, taken = ent
                cond = iv.e == bv(v, iv.bits)
                self.trace.append(ent)
                cnd = cond if taken else z3.Not(cond)
                self.pc.append(cnd)
                self.solver.add(cnd)
                self.cur_model = None
                if taken:
                    return v
                continue
            self.stats['decisions'] += 1
            m = getattr(self, 'cur_model', None)
            if m is None:
                st, m = self.check_model(z3.BoolVal(True))
                if st == 'unknown':
                    raise BoundExceeded('solver returned unknown on a value choice')
                if m is None:
                    raise Infeasible()
            v = m.eval(iv.e, model_completion=True).as_long()
            cond = iv.e == bv(v, iv.bits)
            sf, _m2 = self.check_model(z3.Not(cond))
            if sf == 'unknown':
                raise BoundExceeded('solver returned unknown on a value choice')
            if sf == 'sat':
                self.pending.append(self.trace + [('v', v, False)])
            self.trace.append(('v', v, True))
            self.pc.append(cond)
            self.solver.add(cond)
            self.cur_model = m
            return v
        raise BoundExceeded('too many values for a symbolic integer that must be concrete')

    # ---- MIR execution -------------------------------------------------------------------------------
    def call(self, fname, args):
        f = self.prog.func(fname)
        self.functions_executed.add(fname)
        if not hasattr(self, '_fstack'):
            self._fstack = []
        if not fname.startswith('const '):
            self._fstack.append(fname)
            try:
                return self._call(f, fname, args)
            finally:
                self._fstack.pop()
        return self._call(f, fname, args)

    def _call(self, f, fname, args):
        fr = Frame(f)
        if len(args) != len(f.args):
            raise Unsupported(f'arity mismatch calling {fname}')
        for (lid, _ty), v in zip(f.args, args):
            fr.locals[lid] = Cell(v)
        bb = 'bb0'
        visits = {}
        while True:
            visits[bb] = visits.get(bb, 0) + 1
            if visits[bb] > self.max_visits:
                raise BoundExceeded(f'block {bb} of {fname} visited more than {self.max_visits} times')
            blk = f.blocks[bb]
            for st in blk.stmts:
                self.steps += 1
                self.stats['steps'] += 1
                if self.steps > self.max_steps:
                    raise BoundExceeded('step limit')
                self.exec_stmt(fr, st)
            t = self._term_cache.get(blk.term)
            if t is None:
                t = parse_terminator(blk.term)
                self._term_cache[blk.term] = t
            k = t[0]
            if k == 'goto':
                bb = t[1]
            elif k == 'return':
                c = fr.locals.get('_0')
                return c.v if c is not None else UNIT
            elif k == 'switch':
                v = self.operand(fr, t[1])
                bb = self.switch(v, t[2], t[3])
            elif k == 'assert':
                c = self.operand(fr, t[1])
                ok = self.decide(c if t[2] else z3.Not(c))
                if not ok:
                    raise Panic('assert: ' + t[3])
                bb = t[4]
            elif k == 'call':
                _, dest, callee, ops, ret_bb = t
                argv = [self.operand(fr, o) for o in ops]
                if callee.startswith(('copy ', 'move ')):
                    # call through a function pointer / fn item held in a local
                    from mirparse import parse_operand
                    fv = self.operand(fr, parse_operand(callee))
                    if callable(fv):
                        r = fv(self, argv)
                    elif isinstance(fv, Opaque) and fv.what.startswith('fn:'):
                        r = self.do_call(fv.what[3:], argv)
                    else:
                        raise Unsupported(f'indirect call through {fv!r}')
                else:
                    r = self.do_call(callee, argv)
                if ret_bb is None:
                    raise Panic(f'diverging call {callee} returned')
                if dest is not None:
                    self.write_place(fr, dest, r)
                bb = ret_bb
            elif k == 'unreachable':
                raise Unsupported(f'reached `unreachable` in {fname} {bb}')
            else:
                raise Unsupported(f'terminator {t}')

    def do_call(self, callee, argv):
        # crate function with a body in the dump?
        target = None
        if callee not in self.models.exact:
            target = self.prog.resolve(callee)
        if target is not None and not self.models.prefer_model(callee):
            # a generic crate function called with an explicit type argument (`parse_integer::<u64>`): bind T for the callee
            m = re.search(r'::<(u8|u16|u32|u64|usize|i8|i16|i32|i64|isize)>$', callee)
            if m:
                self.tbind.append(m.group(1))
                try:
                    return self.call(target, argv)
                finally:
                    self.tbind.pop()
            return self.call(target, argv)
        fn = self.models.lookup(callee)
        if fn is None:
            raise Unsupported(f'no body and no model for {callee}')
        self.models_used.add(self.models.last_key)
        return fn(self, callee, argv)

    def call_closure(self, clo, args):
        """invoke a closure value (or fn item) with the given argument list (closure passed by value / ref as needed)"""
        if isinstance(clo, Ref):
            clo = self.deref(clo)
        if isinstance(clo, Closure):
            name = self.prog.closures.get(clo.span)
            if name is None:
                raise Unsupported(f'closure body not found for {clo.span}')
            f = self.prog.func(name)
            first_ty = f.args[0][1]
            self_arg = Ref(Cell(clo)) if first_ty.startswith('&') else clo
            return self.call(name, [self_arg] + list(args))
        if isinstance(clo, Opaque) and clo.what.startswith('fn:'):
            return self.do_call(clo.what[3:], list(args))
        raise Unsupported(f'cannot call {clo!r}')

    def switch(self, v, targets, otherwise):
        if isinstance(v, I):
            c = v.conc()
            if c is not None:
                for val, bbn in targets:
                    if (val & ((1 << v.bits) - 1)) == (c & ((1 << v.bits) - 1)):
                        return bbn
                return otherwise
            for val, bbn in targets:
                if self.decide(v.e == bv(val, v.bits)):
                    return bbn
            if otherwise is None:
                raise Infeasible()
            return otherwise
        # bool
        if isinstance(v, bool) or z3.is_bool(v):
            b = self.decide(v)
            for val, bbn in targets:
                if val == (1 if b else 0):
                    return bbn
            return otherwise
        raise Unsupported(f'switchInt on {v!r}')

    def exec_stmt(self, fr, st):
        p = self._stmt_cache.get(st)
        if p is None:
            p = parse_statement(st)
            self._stmt_cache[st] = p
        if p[0] == 'nop':
            return
        if p[0] == 'assign':
            dty = fr.func.locals.get(p[1][0]) if not p[1][1] else None
            v = self.rvalue(fr, p[2], dty)
            self.write_place(fr, p[1], v)
            return
        raise Unsupported(f'statement {st}')

    # ---- places --------------------------------------------------------------------------------------
    def local_cell(self, fr, lid):
        c = fr.locals.get(lid)
        if c is None:
            c = Cell(None)
            fr.locals[lid] = c
        return c

    def resolve_place(self, fr, place):
        """-> (cell, path) or ('elem', slice, idx)"""
        base, projs = place
        cell = self.local_cell(fr, base)
        path = []
        i = 0
        while i < len(projs):
            pr = projs[i]
            if pr[0] == 'deref':
                v = self.get_at(cell, path)
                if isinstance(v, Ref):
                    cell, path = v.cell, list(v.path)
                elif isinstance(v, ElemRef):
                    cell, path = Cell(v.slice), [('selem', v.idx)]
                elif isinstance(v, (Slice, Str)):
                    # *slice_ref : the unsized slice itself; keep as a pseudo cell
                    cell, path = Cell(v), []
                elif isinstance(v, Agg) and v.ty == 'Box':
                    cell, path = v.fields[0].cell, list(v.fields[0].path)
                else:
                    raise Unsupported(f'deref of {v!r}')
            elif pr[0] == 'field':
                path.append(('f', pr[1]))
            elif pr[0] == 'downcast':
                path.append(('d', pr[1]))
            elif pr[0] == 'index':
                idx = self.local_cell(fr, pr[1]).v
                path.append(('i', self.concretize(idx)))
            elif pr[0] == 'cindex':
                path.append(('ci', pr[1], pr[2]))
            else:
                raise Unsupported(f'projection {pr}')
            i += 1
        return cell, path

    def get_at(self, cell, path):
        v = cell.v
        for pe in path:
            v = self.proj(v, pe)
        return v

    def proj(self, v, pe):
        if pe[0] == 'f':
            if isinstance(v, Agg):
                if pe[1] >= len(v.fields):
                    raise Unsupported(f'field {pe[1]} of {v!r}')
                return v.fields[pe[1]]
            if isinstance(v, Closure):
                return v.caps[pe[1]]
            raise Unsupported(f'field of {v!r}')
        if pe[0] == 'd':
            if isinstance(v, Agg):
                return v
            raise Unsupported(f'downcast of {v!r}')
        if pe[0] in ('i', 'selem'):
            idx = pe[1]
            if isinstance(v, Slice):
                if idx >= v.len:
                    raise Panic('index out of bounds')
                x = v.buf[v.off + idx]
                return I(x, False, 'u8') if z3.is_bv(x) else x
            if isinstance(v, Agg) and v.ty == 'array':
                return v.fields[idx]
            if isinstance(v, VecV):
                if idx >= len(v.items):
                    raise Panic('index out of bounds')
                return v.items[idx]
            if isinstance(v, Str):
                return I(v.b[idx], False, 'u8')
            raise Unsupported(f'index into {v!r}')
        if pe[0] == 'ci':
            n = pe[1]
            if isinstance(v, Agg):
                return v.fields[-n if pe[2] else n]
            if isinstance(v, Slice):
                k = v.len - n if pe[2] else n
                x = v.buf[v.off + k]
                return I(x, False, 'u8') if z3.is_bv(x) else x
        raise Unsupported(f'projection {pe} of {v!r}')

    def read_place(self, fr, place):
        cell, path = self.resolve_place(fr, place)
        v = self.get_at(cell, path)
        if v is None:
            raise Unsupported(f'read of uninitialised place {place}')
        return v

    def write_place(self, fr, place, val):
        cell, path = self.resolve_place(fr, place)
        if not path:
            cell.v = val
            return
        v = cell.v
        for pe in path[:-1]:
            v = self.proj(v, pe)
        last = path[-1]
        if last[0] == 'f' and isinstance(v, Agg):
            while len(v.fields) <= last[1]:
                v.fields.append(None)
            v.fields[last[1]] = val
            return
        if last[0] == 'i' and isinstance(v, Agg):
            v.fields[last[1]] = val
            return
        if last[0] == 'i' and isinstance(v, VecV):
            if last[1] >= len(v.items):
                raise Panic('index out of bounds')
            v.items[last[1]] = val
            return
        raise Unsupported(f'write through {last} into {v!r}')

    def deref(self, r):
        if isinstance(r, Ref):
            return self.get_at(r.cell, r.path)
        if isinstance(r, ElemRef):
            x = r.slice.buf[r.slice.off + r.idx]
            return I(x, False, 'u8') if z3.is_bv(x) else x
        raise Unsupported(f'deref {r!r}')

    # ---- operands / rvalues --------------------------------------------------------------------------
    def operand(self, fr, op):
        k = op[0]
        if k in ('copy', 'move'):
            return self.read_place(fr, op[1])
        return self.const(op[1])

    def const(self, txt):
        txt = txt.strip()
        cm0 = self.models.const(txt)
        if cm0 is not None:
            return cm0
        m = re.match(r'^(-?\d+)_(u8|u16|u32|u64|usize|u128|i8|i16|i32|i64|isize|i128)$', txt)
        if m:
            return mk_int(int(m.group(1)), m.group(2))
        if txt == 'true':
            return True
        if txt == 'false':
            return False
        if txt == '()':
            return UNIT
        if txt.startswith("'"):
            return mk_int(ord(parse_char_lit(txt)), 'char')
        if txt.startswith('"'):
            return str_slice(parse_str_lit(txt))
        if txt.startswith('b"'):
            b = parse_str_lit(txt[1:])
            return Ref(Cell(Agg('array', None, [I(x, False, 'u8') for x in lit_bytes(b)])))
        m = re.match(r'^ZeroSized: (\{closure@.*\})$', txt)
        if m:
            return Closure(m.group(1), [])
        m = re.match(r'^ZeroSized: (.*)$', txt)
        if m:
            t = m.group(1).strip()
            mm = re.search(r'\{([^{}]*)\}$', t)      # `for<'a> fn(&'a u8) -> bool {core::num::<impl u8>::is_ascii_hexdigit}`
            return Opaque('fn:' + (mm.group(1).strip() if mm else t))
        if ('const ' + txt) in self.prog.raw:
            return self.call('const ' + txt, [])
        m = re.match(r'^\{(alloc\d+): &\[(.*); (\d+)\]\}$', txt)
        if m and m.group(1) in self.prog.allocs:
            return Ref(Cell(self.decode_alloc(self.prog.allocs[m.group(1)], m.group(2), int(m.group(3)))))
        m = re.search(r'::(promoted\[\d+\])$', txt)
        if m and getattr(self, '_fstack', None):
            # a promoted constant of the function being executed (use site and definition print the impl path differently)
            key = 'const ' + self._fstack[-1] + '::' + m.group(1)
            if key in self.prog.raw:
                return self.call(key, [])
        m = re.match(r'^(-?[\d.]+(?:[eE][+-]?\d+)?|[+-]?inf|NaN)f64$', txt)
        if m:
            return F(z3.FPVal(float(m.group(1)), z3.Float64()))
        m = re.match(r'^(?:core|std)::num::<impl (\w+)>::(MAX|MIN)$', txt) or re.match(r'^(u8|u16|u32|u64|usize|i8|i16|i32|i64|isize)::(MAX|MIN)$', txt)
        if m and m.group(1) in INT_TYPES:
            bits, signed = INT_TYPES[m.group(1)]
            if m.group(2) == 'MAX':
                v = (1 << (bits - 1)) - 1 if signed else (1 << bits) - 1
            else:
                v = -(1 << (bits - 1)) if signed else 0
            return mk_int(v, m.group(1))
        # unit enum variants written as paths, e.g. std::cmp::Ordering::Less / Option::<T>::None
        m = re.match(r'^(?:[\w<>\', &\[\]()]*::)*(\w+)(?:::<.*>)?::(\w+)$', txt)
        if m:
            return Agg(m.group(1), m.group(2), [])
        if re.match(r'^[A-Z]\w*$', txt):
            return Agg(txt, None, [])      # unit struct value (e.g. an error marker type)
        raise Unsupported(f'constant {txt!r}')

    def decode_alloc(self, data, elem_ty, count):
        """static array of integers / tuples of integers (little endian, natural alignment)"""
        elem_ty = elem_ty.strip()
        tys = [t.strip() for t in elem_ty[1:-1].split(',')] if elem_ty.startswith('(') else [elem_ty]
        if not all(t in INT_TYPES for t in tys):
            raise Unsupported(f'static of element type {elem_ty}')
        sizes = [INT_TYPES[t][0] // 8 for t in tys]
        align = max(sizes)
        offs = []
        o = 0
        for sz in sizes:
            o = (o + sz - 1) // sz * sz
            offs.append(o)
            o += sz
        stride = (o + align - 1) // align * align
        if stride * count != len(data):
            raise Unsupported(f'static layout mismatch for [{elem_ty}; {count}] ({len(data)} bytes)')
        items = []
        for i in range(count):
            vals = [mk_int(int.from_bytes(data[i * stride + off:i * stride + off + sz], 'little'), t) for t, off, sz in zip(tys, offs, sizes)]
            items.append(Agg('tuple', None, vals) if elem_ty.startswith('(') else vals[0])
        return Agg('array', None, items)

    def rvalue(self, fr, rv, dest_ty=None):
        k = rv[0]
        if k == 'use':
            return self.operand(fr, rv[1])
        if k == 'ref':
            place = rv[2]
            base, projs = place
            # &(*_1)  == reborrow: same reference
            if projs and projs[-1] == ('deref',):
                inner = self.read_place(fr, (base, projs[:-1]))
                return inner
            if projs and projs[-1][0] == 'index':
                cont = self.read_place(fr, (base, projs[:-1]))
                idx = self.concretize(self.local_cell(fr, projs[-1][1]).v)
                if isinstance(cont, Slice):
                    if idx >= cont.len:
                        raise Panic('index out of bounds')
                    return ElemRef(cont, idx)
            cell, path = self.resolve_place(fr, place)
            return Ref(cell, path)
        if k == 'binop':
            return self.binop(rv[1], self.operand(fr, rv[2]), self.operand(fr, rv[3]))
        if k == 'unop':
            return self.unop(rv[1], self.operand(fr, rv[2]))
        if k == 'cast':
            return self.cast(self.operand(fr, rv[1]), rv[2], rv[3])
        if k == 'discriminant':
            v = self.read_place(fr, rv[1])
            return self.discriminant(v, dest_ty)
        if k == 'len':
            v = self.read_place(fr, rv[1])
            return usize(self.length_of(v))
        if k == 'tuple':
            return Agg('tuple', None, [self.operand(fr, o) for o in rv[1]])
        if k == 'array':
            return Agg('array', None, [self.operand(fr, o) for o in rv[1]])
        if k == 'closure':
            return Closure(rv[1], [self.operand(fr, o) for o in rv[2]])
        if k == 'adt':
            head, names, ops = rv[1], rv[2], rv[3]
            vals = [self.operand(fr, o) for o in ops]
            return self.make_adt(head, names, vals, dest_ty)
        raise Unsupported(f'rvalue {rv}')

    def make_adt(self, head, names, vals, dest_ty=None):
        h = re.sub(r'::<.*?>(?=::|$| )', '', head).strip()
        h = re.sub(r'<.*>', '', h)
        cm0 = self.models.const(h)
        if cm0 is not None and not vals:
            return cm0
        parts = h.split('::')
        tyname = parts[-1]
        variant = None
        if len(parts) == 1 and dest_ty:
            # bare variant name (`_0 = Greater;`): the enum is the destination's type
            dt = re.sub(r'<.*', '', dest_ty).split('::')[-1].strip()
            cm = self.models.const(f'{dt}::{tyname}')
            if cm is not None and not vals:
                return cm
            from models import STD_ENUMS
            if (dt in STD_ENUMS and tyname in STD_ENUMS[dt]) or (dt in self.prog.enums and tyname in self.prog.enums[dt]):
                return Agg(dt, tyname, vals)
        if len(parts) >= 2 and parts[-2] in self.known_enums():
            tyname, variant = parts[-2], parts[-1]
        elif tyname in self.known_enums() and len(parts) == 1 and names is None and not vals:
            pass
        return Agg(tyname, variant, vals)

    def known_enums(self):
        return self.models.enum_names(self.prog)

    def discriminant(self, v, dest_ty=None):
        bits, signed, ty = 64, True, 'isize'
        if dest_ty in INT_TYPES:
            bits, signed = INT_TYPES[dest_ty]
            ty = dest_ty
        if isinstance(v, Agg) and v.variant is not None:
            d = self.models.discr(self.prog, v.ty, v.variant)
            return I(bv(d & ((1 << bits) - 1), bits), signed, ty)
        if isinstance(v, I):
            # field-less enum represented by its discriminant (EnumItem, AutosarVersion, ...)
            e = v.e
            if v.bits < bits:
                e = z3.ZeroExt(bits - v.bits, e)
            elif v.bits > bits:
                e = z3.Extract(bits - 1, 0, e)
            return I(e, signed, ty)
        raise Unsupported(f'discriminant of {v!r}')

    def length_of(self, v):
        if isinstance(v, Slice):
            return v.len
        if isinstance(v, Str):
            return len(v.b)
        if isinstance(v, Agg) and v.ty == 'array':
            return len(v.fields)
        if isinstance(v, Ref):
            return self.length_of(self.deref(v))
        raise Unsupported(f'length of {v!r}')

    def unop(self, op, a):
        if op == 'Not':
            if isinstance(a, I):
                return I(~a.e, a.signed, a.ty)
            if isinstance(a, bool):
                return not a
            return z3.Not(a)
        if op == 'Neg':
            if isinstance(a, F):
                return F(z3.fpNeg(a.e))
            return I(-a.e, a.signed, a.ty)
        if op == 'PtrMetadata':
            return usize(self.length_of(a))
        raise Unsupported(f'unop {op}')

    def tobool(self, b):
        return z3.BoolVal(b) if isinstance(b, bool) else b

    def binop(self, op, a, b):
        if isinstance(a, I) and isinstance(b, I):
            if a.bits != b.bits and op not in ('Shl', 'Shr', 'ShlUnchecked', 'ShrUnchecked'):
                raise Unsupported(f'width mismatch {op} {a.bits} {b.bits}')
            s = a.signed
            x, y = a.e, b.e
            if op in ('Add', 'AddUnchecked'):
                return I(z3.simplify(x + y), s, a.ty)
            if op in ('Sub', 'SubUnchecked'):
                return I(z3.simplify(x - y), s, a.ty)
            if op in ('Mul', 'MulUnchecked'):
                return I(z3.simplify(x * y), s, a.ty)
            if op == 'BitAnd':
                return I(z3.simplify(x & y), s, a.ty)
            if op == 'BitOr':
                return I(z3.simplify(x | y), s, a.ty)
            if op == 'BitXor':
                return I(z3.simplify(x ^ y), s, a.ty)
            if op in ('Shl', 'ShlUnchecked'):
                yy = self.fit(y, a.bits)
                return I(z3.simplify(x << yy), s, a.ty)
            if op in ('Shr', 'ShrUnchecked'):
                yy = self.fit(y, a.bits)
                return I(z3.simplify((x >> yy) if s else z3.LShR(x, yy)), s, a.ty)
            if op == 'Div':
                if self.decide(y == 0):
                    raise Panic('attempt to divide by zero')
                return I(z3.simplify((x / y) if s else z3.UDiv(x, y)), s, a.ty)
            if op == 'Rem':
                if self.decide(y == 0):
                    raise Panic('attempt to calculate the remainder with a divisor of zero')
                return I(z3.simplify(z3.SRem(x, y) if s else z3.URem(x, y)), s, a.ty)
            if op == 'Eq':
                return z3.simplify(x == y)
            if op == 'Ne':
                return z3.simplify(x != y)
            if op == 'Lt':
                return z3.simplify((x < y) if s else z3.ULT(x, y))
            if op == 'Le':
                return z3.simplify((x <= y) if s else z3.ULE(x, y))
            if op == 'Gt':
                return z3.simplify((x > y) if s else z3.UGT(x, y))
            if op == 'Ge':
                return z3.simplify((x >= y) if s else z3.UGE(x, y))
            if op in ('AddWithOverflow', 'SubWithOverflow', 'MulWithOverflow'):
                n = a.bits
                if op == 'AddWithOverflow':
                    r = x + y
                    ov = z3.Not(z3.BVAddNoOverflow(x, y, s)) if not s else z3.Or(z3.Not(z3.BVAddNoOverflow(x, y, True)), z3.Not(z3.BVAddNoUnderflow(x, y)))
                elif op == 'SubWithOverflow':
                    r = x - y
                    ov = z3.Not(z3.BVSubNoUnderflow(x, y, s)) if not s else z3.Or(z3.Not(z3.BVSubNoOverflow(x, y)), z3.Not(z3.BVSubNoUnderflow(x, y, True)))
                else:
                    r = x * y
                    ov = z3.Not(z3.BVMulNoOverflow(x, y, s)) if not s else z3.Or(z3.Not(z3.BVMulNoOverflow(x, y, True)), z3.Not(z3.BVMulNoUnderflow(x, y)))
                return Agg('tuple', None, [I(z3.simplify(r), s, a.ty), z3.simplify(ov)])
            if op == 'Cmp':
                lt = (x < y) if s else z3.ULT(x, y)
                return ('cmp3', lt, x == y)
        if isinstance(a, (bool, z3.BoolRef)) and isinstance(b, (bool, z3.BoolRef)):
            x, y = self.tobool(a), self.tobool(b)
            if op == 'Eq':
                return z3.simplify(x == y)
            if op == 'Ne':
                return z3.simplify(x != y)
            if op == 'BitAnd':
                return z3.simplify(z3.And(x, y))
            if op == 'BitOr':
                return z3.simplify(z3.Or(x, y))
            if op == 'BitXor':
                return z3.simplify(z3.Xor(x, y))
        if isinstance(a, F) and isinstance(b, F):
            x, y = a.e, b.e
            m = {'Eq': z3.fpEQ, 'Lt': z3.fpLT, 'Le': z3.fpLEQ, 'Gt': z3.fpGT, 'Ge': z3.fpGEQ}
            if op in m:
                return m[op](x, y)
            if op == 'Ne':
                return z3.Not(z3.fpEQ(x, y))
        raise Unsupported(f'binop {op} on {a!r}, {b!r}')

    def fit(self, y, bits):
        if y.size() == bits:
            return y
        if y.size() < bits:
            return z3.ZeroExt(bits - y.size(), y)
        return z3.Extract(bits - 1, 0, y)

    def cast(self, v, ty, kind):
        ty = ty.strip()
        if kind in ('IntToInt',):
            if isinstance(v, (bool, z3.BoolRef)):
                bits, signed = INT_TYPES[ty]
                return I(z3.If(self.tobool(v), bv(1, bits), bv(0, bits)), signed, ty)
            bits, signed = INT_TYPES[ty]
            if bits == v.bits:
                e = v.e
            elif bits < v.bits:
                e = z3.Extract(bits - 1, 0, v.e)
            else:
                e = z3.SignExt(bits - v.bits, v.e) if v.signed else z3.ZeroExt(bits - v.bits, v.e)
            return I(z3.simplify(e), signed, ty)
        if kind == 'IntToFloat' and ty == 'f64':
            rm = z3.RNE()
            return F(z3.fpSignedToFP(rm, v.e, z3.Float64()) if v.signed else z3.fpUnsignedToFP(rm, v.e, z3.Float64()))
        if kind.startswith('PointerCoercion(Unsize'):
            # &[T; N] -> &[T]
            inner = self.deref(v) if isinstance(v, (Ref, ElemRef)) else v
            if isinstance(inner, Agg) and inner.ty == 'array':
                items = [x.e if isinstance(x, I) and x.bits == 8 and ty.strip().endswith('[u8]') else x for x in inner.fields]
                return Slice(items, 0, len(items), False)
            return v
        if kind in ('PtrToPtr', 'Transmute') or kind.startswith('PointerCoercion'):
            return self.models.transmute(self, v, ty)
        raise Unsupported(f'cast {kind} to {ty}')


def parse_char_lit(txt):
    body = txt[1:-1]
    return decode_escapes(body)


def parse_str_lit(txt):
    # "..." with rust escapes -> bytes
    body = txt[1:-1]
    out = bytearray()
    i = 0
    while i < len(body):
        c = body[i]
        if c == '\\':
            n = body[i + 1]
            if n == 'n':
                out += b'\n'
                i += 2
            elif n == 't':
                out += b'\t'
                i += 2
            elif n == 'r':
                out += b'\r'
                i += 2
            elif n == '0':
                out += b'\0'
                i += 2
            elif n in '\\"\'':
                out += n.encode()
                i += 2
            elif n == 'x':
                out.append(int(body[i + 2:i + 4], 16))
                i += 4
            elif n == 'u':
                j = body.index('}', i)
                out += chr(int(body[i + 3:j], 16)).encode('utf-8')
                i = j + 1
            else:
                raise Unsupported(f'escape \\{n}')
        else:
            out += c.encode('utf-8')
            i += 1
    return bytes(out)


def decode_escapes(body):
    if body.startswith('\\'):
        n = body[1]
        if n == 'n':
            return '\n'
        if n == 't':
            return '\t'
        if n == 'r':
            return '\r'
        if n == '0':
            return '\0'
        if n in '\\"\'':
            return n
        if n == 'x':
            return chr(int(body[2:4], 16))
        if n == 'u':
            return chr(int(body[3:body.index('}')], 16))
        raise Unsupported(f'char escape {body}')
    return body
