"""C12 - single-threaded use never panics (kernel level): the editing kernels of elementraw.rs are executed from their MIR from
ANY content a load can produce - strict and lenient loads do not check the order of sub-elements, and a lenient load keeps
sub-elements that do not exist in the file's version - and must return a value."""
from vlib.core import Harness, E2Spec

FUNCS = ['elementraw::ElementRaw::calc_element_insert_range', 'elementraw::ElementRaw::create_sub_element_at', 'elementraw::ElementRaw::create_sub_element_inner',
         'elementraw::ElementRaw::wrap', 'elementraw::ElementRaw::element_name', 'element::Element::element_name']
SCHEMA = ("abstract content model of the parent: top group (mode symbolic in Sequence/Choice/Bag) = [A, group G (mode symbolic in Sequence/Choice) [B, group H (mode symbolic in Sequence/Choice) [C, E]], D, A']; "
          'the name A is listed twice (positions 0 and 3) and the file version selects which entry (symbolic); '
          'multiplicity of each of A..E symbolic in ZeroOrOne/One/Any; availability of each of A..E in the file version symbolic (version-foreign content included)')


def build(tier, known):
    q = tier == 'quick'
    hs = [Harness('n_edit_insert', 'data', 'element.rs', '', functions=[], bound='', claim='', role='native')]
    for k in range(0, (3 if q else 4) + 1):
        hs.append(E2Spec(f'e2_c12_insert_total_k{k}', 'EditInsert', dict(k=k, mode='total'), functions=FUNCS,
                         bound=f'parent with exactly {k} existing sub-elements, each ANY of A..E in ANY order and number (also not conforming, also not available in the version); new sub-element ANY of A..E; position ANY in 0..{k + 1}; ' + SCHEMA,
                         claim='calc_element_insert_range and create_sub_element_at return (no panic: unwrap on a failed lookup, unreachable!, index out of bounds, arithmetic overflow) and a failing call leaves the content untouched',
                         native=('data', 'n_edit_insert'), parts=(32 if k >= 4 else (16 if k == 3 else (8 if k == 2 else 1))), timeout=900 if q else 3600))
    info = dict(
        assumptions=['E2 library models (mirsym/models.py) are trusted and validated against the native build',
                     'the specification crate answers consistently with ONE content model of the stated shape',
                     'Arc / RwLock / HashSet are single-threaded stand-ins inside the executor: lock conflicts (the spurious-lock clause) are not modelled'],
        outside_claim=['every other public method (the property quantifies over all of AutosarModel / ArxmlFile / Element): path index, reference bookkeeping, file sets, iterators, deep copy - IndexMap / FxHashMap / HashSet behind locks (DESIGN.md section 6)',
                       'handles to deleted elements and elements of other models; stack depth; blocking',
                       'panics of the loader itself are decided under C02'],
    )
    return hs, {}, info
