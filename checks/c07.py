"""C07 - the insertion range reported by the editing API is exact (kernel level): one editing step from ANY state that editing
can have built.  calc_element_insert_range / create_sub_element_at / create_sub_element_inner are executed from their MIR on a
parent element whose content is a symbolic sequence of sub-elements; the specification crate's answers are symbolic."""
from vlib.core import Harness, E2Spec

FUNCS = ['elementraw::ElementRaw::calc_element_insert_range', 'elementraw::ElementRaw::create_sub_element_at', 'elementraw::ElementRaw::create_sub_element_inner',
         'elementraw::ElementRaw::wrap', 'elementraw::ElementRaw::element_name', 'element::Element::element_name']
SCHEMA = ("abstract content model of the parent: top group (mode symbolic in Sequence/Choice/Bag) = [A, group G (mode symbolic in Sequence/Choice) [B, group H (mode symbolic in Sequence/Choice) [C, E]], D, A']; "
          'the name A is listed twice (positions 0 and 3: an element that moved between versions) and the file version selects which entry (symbolic); '
          'multiplicity of each of A..E symbolic in ZeroOrOne/One/Any; availability of each of A..E in the file version symbolic')


def build(tier, known):
    q = tier == 'quick'
    hs = [Harness('n_edit_insert', 'data', 'element.rs', '', functions=[], bound='', claim='', role='native')]
    for k in range(0, (3 if q else 4) + 1):
        hs.append(E2Spec(f'e2_c07_insert_range_k{k}', 'EditInsert', dict(k=k, mode='range'), functions=FUNCS,
                         bound=f'parent with exactly {k} existing sub-elements, each ANY of A..E, in ANY state that conforms to the content model (inductive step: the state editing maintains); new sub-element ANY of A..E; position ANY in 0..{k + 1}; ' + SCHEMA,
                         claim='calc_element_insert_range returns Ok((s, e)) with s <= p <= e exactly for the positions p at which inserting the new sub-element keeps the content conforming (order inside sequence groups, one alternative per choice group, '
                               'repetition only with multiplicity Any, availability in the version), and Err exactly when no position does; create_sub_element_at succeeds exactly inside the range, inserts exactly one new element of that name at that position, '
                               'and leaves the content untouched when it fails',
                         native=('data', 'n_edit_insert'), parts=(32 if k >= 4 else (16 if k == 3 else (8 if k == 2 else 1))), timeout=900 if q else 3600))
    info = dict(
        assumptions=['E2 library models (mirsym/models.py) are trusted and validated against the native build',
                     'the specification crate answers find_sub_element / find_common_group / content_mode / get_sub_element_multiplicity consistently with ONE content model of the stated shape (three group levels); deeper nesting (up to 5 levels in PRM-CHAR) repeats the same pairwise rule',
                     'Arc / RwLock / HashSet are single-threaded stand-ins inside the executor'],
        outside_claim=['named sub-elements (create_named_sub_element*), copies and moves, attributes and character data: their kernels register paths in the model index (IndexMap / FxHashMap behind locks, DESIGN.md section 6)',
                       'the per-type tables of the specification crate (decided under C18) and the serialize/lenient-reload half of the property (C01 covers the loader/serializer pair on mini documents)',
                       'histories longer than one step are covered by induction over the conforming-content invariant, not by enumeration; Mixed content (character data items between sub-elements)'],
    )
    return hs, {}, info
