"""C18 - specification tables are exact (names <-> texts, versions <-> value/bit/file name).

Kani/CBMC part: AttributeName (101 items) and AutosarVersion on the real compiled functions.
The two big tables (EnumItem, ElementName) go through the MIR symbolic executor (engine E2), see checks/c18_e2 hook below.
"""
import os
import re
from vlib.core import Harness, E2Spec, SPEC_SRC


def count_items(fname, const='STRING_TABLE'):
    src = open(os.path.join(SPEC_SRC, fname), encoding='utf-8').read()
    m = re.search(r'const STRING_TABLE: \[&\'static str; (\d+)\]', src)
    if not m:
        raise RuntimeError(f'{fname}: STRING_TABLE not found')
    return int(m.group(1))


def build(tier, known):
    q = tier == 'quick'
    hs = []
    n_attr = count_items('attributename.rs')
    n = 8 if q else 16
    hs.append(Harness(f'h_c18_attr_sound_n{n}', 'spec', 'spec_lib.rs',
                      f'h_name_sound!(h_c18_attr_sound_n{n}, AttributeName, {n_attr}, {n}, {max(n, 25) + 2});',
                      functions=['AttributeName::from_bytes', 'hashfunc', 'AttributeName::to_str'],
                      bound=f'all byte strings of length <= {n} over all 256 byte values; unwind {max(n, 25) + 2}',
                      claim='from_bytes(s) == Ok(x)  =>  x is one of the table items and to_str(x) == s (any text that is not exactly an item text fails)',
                      timeout=600 if q else 3600))
    # completeness, chunked for parallelism
    step = 26 if q else 13
    lo = 0
    while lo < n_attr:
        hi = min(n_attr, lo + step)
        name = f'h_c18_attr_complete_{lo}_{hi}'
        hs.append(Harness(name, 'spec', 'spec_lib.rs', f'h_name_complete!({name}, AttributeName, u16, {lo}, {hi}, 27);',
                          functions=['AttributeName::to_str', 'AttributeName::from_bytes', 'hashfunc'],
                          bound=f'symbolic item index in [{lo}, {hi}) of {n_attr}; unwind 27 (longest item text: 24 bytes)',
                          claim='from_bytes(to_str(i)) == Ok(i) for every item (=> distinct items have distinct texts)',
                          timeout=600 if q else 3600))
        lo = hi
    hs.append(Harness('h_version_from_val', 'spec', 'spec_lib.rs', '',
                      functions=['AutosarVersion::from_val', 'FromPrimitive::from_u32/from_u64'],
                      bound='all 2^32 values', claim='from_val(v) == Some(x) <=> v is a single bit below 2^21 and x as u32 == v',
                      timeout=300))
    hs.append(Harness('h_version_filename_roundtrip', 'spec', 'spec_lib.rs', '',
                      functions=['AutosarVersion::filename', 'AutosarVersion::from_str', 'AutosarVersion::compatible'],
                      bound='all 21 versions (symbolic bit index), all 2^32 masks; unwind 20',
                      claim='from_str(filename(x)) == x; compatible(mask) <=> mask has the bit of x', timeout=300))
    k = 2 if q else 3
    hs.append(Harness(f'h_c18_version_from_str_neigh{k}', 'spec', 'spec_lib.rs',
                      f'h_version_from_str_neigh!(h_c18_version_from_str_neigh{k}, {k}, 21);',
                      functions=['AutosarVersion::from_str', 'AutosarVersion::filename'],
                      bound=f'every text obtained from one of the 21 schema file names by substituting up to {k} bytes (symbolic positions, any ASCII value), optionally dropping the last byte or appending one; unwind 21',
                      claim='from_str(s) == Ok(x) => s == filename(x); from_str(s) is Err => s is not the file name it was derived from', timeout=900 if q else 3600))
    nv = 18 if q else 20
    hs.append(Harness(f'h_c18_version_from_str_n{nv}', 'spec', 'spec_lib.rs', f'h_version_from_str_sound!(h_c18_version_from_str_n{nv}, {nv}, {nv + 3});',
                      functions=['AutosarVersion::from_str', 'AutosarVersion::filename'], bound=f'all ASCII strings of length <= {nv}; unwind {nv + 3}',
                      claim='from_str(s) == Ok(x) => s == filename(x)', timeout=900 if q else 3600))
    # ---- the three perfect-hash lookups through engine E2 (the two big tables are out of CBMC's reach: symbolic index into
    #      a 6459-entry table of &str, measured: no verdict after 9 min at 2.3 GB) ----
    hs.append(Harness('n_c18_names', 'spec', 'spec_lib.rs', '', functions=[], bound='', claim='', role='native'))
    sizes = dict(attr=n_attr, enum=count_items('enumitem.rs'), elem=count_items('elementname.rs'))
    for tab, cnt in sizes.items():
        parts = 1 if cnt < 500 else 16
        hs.append(E2Spec(f'e2_c18_{tab}_complete', 'C18Names', dict(table=tab, mode='complete', _crates=['spec']),
                         functions=['hashfunc', f'{tab} from_bytes (MIR of the specification crate, static DISPLACEMENTS from the dump)'],
                         bound=f'symbolic item index over all {cnt} items of the table (one path per item)',
                         claim='from_bytes(to_str(i)) == Ok(i) for every item (=> distinct items have distinct texts)',
                         native=('spec', 'n_c18_names'), parts=parts, timeout=1200 if q else 3600))
        for n in (0, 1):
            hs.append(E2Spec(f'e2_c18_{tab}_sound_n{n}', 'C18Names', dict(table=tab, mode='sound', n=n, _crates=['spec']),
                             functions=['hashfunc', f'{tab} from_bytes'],
                             bound=f'all byte strings of length exactly {n}',
                             claim='from_bytes(s) == Ok(x) => x inside the table and to_str(x) == s; Err => s is not the text of an item',
                             native=('spec', 'n_c18_names'), parts=(8 if n == 1 else 1), timeout=1200 if q else 3600))
    info = dict(
        e2_spec_entries='names',
        assumptions=['64-bit little-endian target (hashfunc uses from_ne_bytes)',
                     'completeness harnesses build the item from its discriminant by transmute; discriminant == table index is what from_bytes itself relies on'],
        outside_claim=['byte strings longer than the stated bound (soundness of from_bytes)',
                       '"every listed sub-element/attribute is found by lookup" and the reference_dest_value / verify_reference_dest pairing: quantify over 9160 element types with Vec-returning recursive lookups (DESIGN.md 5/C18)'],
    )
    return hs, {}, info
