"""C14 - sorting is a canonicalisation: the value / attribute ordering it uses is a total order consistent with equality.

Engine E2 executes the MIR of `impl Ord for CharacterData` and `impl Ord for Attribute` on three symbolic values of every
combination of kinds and decides reflexivity, antisymmetry, transitivity and `cmp == Equal <=> ==` on every feasible path.
"""
import itertools
from vlib.core import Harness, E2Spec


def build(tier, known):
    q = tier == 'quick'
    hs = [Harness('n_c14_value_order', 'data', 'chardata.rs', '', functions=[], bound='', claim='', role='native')]
    str_shapes = ['s0', 's1', 's2'] if q else ['s0', 's1', 's2', 's3']
    combos = []
    # same-kind triples
    for tri in itertools.product(str_shapes, repeat=3):
        combos.append(list(tri))
    combos += [['u', 'u', 'u'], ['f', 'f', 'f'], ['e', 'e', 'e']]
    # mixed kinds: every ordered triple over the four kinds (strings of length 1)
    for tri in itertools.product(['e', 's1', 'u', 'f'], repeat=3):
        if len(set(tri)) > 1:
            combos.append(list(tri))
    for with_attr in (False, True):
        for sh in combos:
            if with_attr and q and not (len(set(sh)) == 1 or sh[0] != sh[1]):
                pass
            name = f'e2_c14_{"attr" if with_attr else "value"}_{"_".join(sh)}'
            hs.append(E2Spec(name, 'C14ValueOrder', dict(shapes=sh, with_attr=with_attr),
                             functions=['<CharacterData as Ord>::cmp'] + (['<Attribute as Ord>::cmp'] if with_attr else []),
                             bound=f'a, b, c of shapes {sh} (e: one of the first 3 enum items, sK: any ASCII string of K bytes, u: any u64, f: any f64 bit pattern)' + ('; attribute names: any of the first 3 names' if with_attr else ''),
                             claim='cmp(a,a) = Equal; cmp(b,a) = reverse(cmp(a,b)); transitive; cmp(a,b) = Equal <=> a == b',
                             native=('data', 'n_c14_value_order'), timeout=600, known_keys=('C14-float-nan-compares-equal',)))
    # ---- the element comparison itself: three sibling packages that differ only in their item name ----
    hs.append(Harness('n_c14_element_order', 'data', 'element.rs', '', functions=[], bound='', claim='', role='native'))
    lens = [[1, 1, 1], [2, 2, 2], [2, 3, 3], [2, 3, 4], [3, 3, 3]] if q else [[1, 1, 1], [2, 2, 2], [2, 2, 3], [2, 3, 3], [2, 3, 4], [3, 3, 3], [3, 3, 4], [3, 4, 4], [2, 4, 4]]
    for ls in lens:
        hs.append(E2Spec(f'e2_c14_element_names_{"_".join(map(str, ls))}', 'C14ElementOrder', dict(lens=ls),
                         functions=['<Element as Ord>::cmp', 'Element::item_name', 'ElementRaw::item_name', 'element::decompose_item_name', 'Element::get_sub_element', 'Element::character_data',
                                    'Element::attribute_value', '<ElementContent as Ord>::cmp (derived)', '<CharacterData as Ord>::cmp'],
                         bound=f'three AR-PACKAGE elements whose only content is a SHORT-NAME; item names of {ls} bytes over [A-Za-z][A-Za-z0-9_]*; locks and Arc replaced by single-threaded stand-ins',
                         claim='cmp(a,a) = Equal; antisymmetric; transitive; Equal <=> equal names',
                         native=('data', 'n_c14_element_order'), timeout=1200 if q else 7200, known_keys=('C14-element-name-order-cycle',)))
    # ---- ElementRaw::sort itself (recursive) on a small tree ----
    hs.append(Harness('n_c14_sort', 'data', 'element.rs', '', functions=[], bound='', claim='', role='native'))
    shapes = [[1, 1], [2, 1], [2, 2], [1, 1, 1]] if q else [[1, 1], [2, 1], [2, 2], [1, 1, 1], [2, 2, 1], [3, 2], [2, 2, 2]]
    for ny in shapes:
        hs.append(E2Spec(f'e2_c14_sort_{"_".join(map(str, ny))}', 'C14Sort', dict(ny=ny),
                         functions=['elementraw::ElementRaw::sort', 'element::Element::sort', '<Element as Ord>::cmp', 'Element::get_sub_element', 'Element::item_name', 'Element::character_data', '<CharacterData as Ord>::cmp',
                                    'elementraw::ElementRaw::sort::{closure#0}'],
                         bound=f'tree SDGS > SDG x {len(ny)} > SD x {ny} (reorderable containers without item names, INDEX, DEFINITION-REF or DEST: the siblings are ordered by their content); every SD value one symbolic lower-case letter; '
                               'slice::sort_by is a stable insertion sort through the real comparison closure; locks and Arc replaced by single-threaded stand-ins',
                         claim='after sort(): every sibling compares <= its successor under the real Element::cmp evaluated on the FINAL state, every child is sorted, the content is kept, sorting again changes nothing, and the result is the same when the siblings and the values start in reversed order',
                         native=('data', 'n_c14_sort'), timeout=1200 if q else 7200))
    info = dict(
        assumptions=['E2 library models (mirsym/models.py) trusted, validated against the native build; f64 comparison = IEEE 754 (z3 FP theory)'],
        outside_claim=['element comparison beyond the item-name rule (INDEX sub-elements, DEFINITION-REF, DEST, deeper content) and everything else sort does',
                       'sort on larger trees, on ordered (non-sortable) containers, Mixed content and with INDEX / DEFINITION-REF keys; index integrity after sort',
                       'strings longer than the stated bound; enum items and attribute names beyond the first three'],
    )
    return hs, {}, info
