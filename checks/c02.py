"""C02 - the loader is total: arbitrary bytes never panic, crash or hang it; error lines lie within the input.

Decided per real function as inductive steps from an arbitrary valid tokenizer state (DESIGN.md 5/C02): each harness makes
the input buffer, its length, the cursor, the line counter and the deferred token symbolic, assumes the representation invariant
plus exactly the precondition the dispatcher establishes, runs ONE real step and asserts: no panic / arithmetic overflow /
out-of-bounds slice (Kani's built-in checks on the compiled code), invariant afterwards, strict progress of the cursor (=> the
measure len - bufpos decreases => termination), error line within 1..=number of lines.
"""
from vlib.core import Harness


def lex(tier, macro, fn, n, extra_unw=3, timeout=None, claim='', role='main', suffix='', unwindset=None):
    name = f'h_c02_{fn}_n{n}{suffix}'
    return Harness(
        name, 'data', 'lexer.rs', f'{macro}!({name}, {n}, {n + extra_unw});',
        functions=[f'lexer::ArxmlLexer::{fn}'],
        bound=f'all buffers of length <= {n} over all 256 byte values; symbolic cursor, line counter and deferred token satisfying the tokenizer invariant; unwind {n + extra_unw}',
        claim=claim or 'no panic/overflow/out-of-bounds; invariant (cursor <= len, 1 <= line <= 1 + newlines consumed, deferred token inside consumed input) preserved; cursor strictly advances; error line within 1..=lines of input',
        timeout=timeout or (420 if tier == 'quick' else 3600), role=role, unwindset=unwindset)


def par(tier, macro, fn, n, unw, timeout=None, claim='', bound='', suffix='', args='', unwindset=None):
    name = f'h_c02_{fn.split("::")[-1]}_n{n}{suffix}'
    return Harness(
        name, 'data', 'parser.rs', f'{macro}!({name}, {n}, {unw}{args});',
        functions=[f'parser::{fn}'],
        bound=bound or f'all byte strings of length <= {n} over all 256 byte values; unwind {unw}',
        claim=claim or 'no panic/overflow/out-of-bounds',
        timeout=timeout or (420 if tier == 'quick' else 3600), unwindset=unwindset)


def build(tier, known):
    q = tier == 'quick'
    hs = []
    n = 8 if q else 12
    hs.append(lex(tier, 'h_lex_characters', 'read_characters', n))
    hs.append(lex(tier, 'h_lex_element_start', 'read_element_start', n))
    hs.append(lex(tier, 'h_lex_element_end', 'read_element_end', n))
    hs.append(lex(tier, 'h_lex_comment', 'read_comment', n))
    hs.append(lex(tier, 'h_lex_xml_header', 'read_xml_header', 6 if q else 8))
    h = Harness('h_c02_read_xml_header_tmpl', 'data', 'lexer.rs', 'h_lex_xml_header_tmpl!(h_c02_read_xml_header_tmpl, 48);',
                functions=['lexer::ArxmlLexer::read_xml_header'],
                bound='44-byte xml declaration skeleton `<?xml version="1.0" encoding="utf-8" s="y"?>` with 9 symbolic holes (separators, all quote characters, one value byte, the byte before `>`), all 256 values each except `>`; unwind 48',
                claim='no panic/overflow/out-of-bounds on the accepting path and its one-byte neighbourhood; invariant preserved; error line within the input',
                timeout=600 if q else 3600)
    if not q:
        hs.append(h)
    hs.append(lex(tier, 'h_lex_next_contracts', 'next', 8 if q else 12, extra_unw=3, suffix='_contracts', unwindset=[(r'ArxmlLexer.*::next$', 'outermost', 1)],
                  claim='dispatcher with the five steps replaced by their contracts (stubs assert the step preconditions assumed above and return any result within the postconditions proved above): real dispatch logic, `>` search, comment-end scan, deferred end token, skip loop: no panic/overflow/out-of-bounds; every step is called inside its precondition; returned and error line within 1..=lines; invariant afterwards; a token other than the deferred end token consumes input; EndOfFile only at the end of the input'))
    if not q:
      hs.append(lex(tier, 'h_lex_next', 'next', 2, extra_unw=3, timeout=3600,
                  claim='cross-check of the contracts: whole dispatcher un-stubbed incl. comment-end scan and skip loop: no panic/overflow/out-of-bounds; returned and error line within 1..=lines; invariant afterwards; a token other than the deferred end token consumes input; EndOfFile only at the end of the input'))
    # ---- parser kernels ----
    hs.append(par(tier, 'h_par_trim_total', 'trim_byte_string', 8 if q else 12, (8 if q else 12) + 2))
    nu = 4 if q else 5
    for strict in ('true', 'false'):
        hs.append(par(tier, 'h_par_unescape_total', 'ArxmlParser::unescape_string', nu, nu + 3, suffix='_strict' if strict == 'true' else '_lenient', args=f', {strict}',
                      bound=f'all ASCII strings of length <= {nu} ({"strict" if strict == "true" else "lenient"} mode); symbolic current line L in a document of T lines; unwind {nu + 3}',
                      claim='no panic/overflow/out-of-bounds while decoding entities and character references; every error and warning names a line in 1..=T'))
    tm = [('dec', 'b"&#"', 2, 'b";"'), ('hex', 'b"&#x"', 2, 'b";"')]
    if not q:
        tm += [('dec3', 'b"a&#"', 3, 'b";b"'), ('hex3', 'b"&#x"', 3, 'b";"'), ('named', 'b"&"', 3, 'b";"')]
    for tag, pre, holes, post in tm:
        for strict in ('true', 'false'):
            name = f'h_c02_unescape_tmpl_{tag}_{"strict" if strict == "true" else "lenient"}'
            hs.append(Harness(name, 'data', 'parser.rs', f'h_par_unescape_tmpl_total!({name}, {pre}, {holes}, {post}, 12, {strict});',
                              functions=['parser::ArxmlParser::unescape_string'],
                              bound=f'skeleton {pre} + {holes} symbolic ASCII bytes + {post} ({"strict" if strict == "true" else "lenient"}); unwind 12',
                              claim='no panic/overflow/out-of-bounds on the character-reference paths (u32 parsing, char::from_u32, UTF-8 encoding); error line within 1..=T',
                              timeout=420 if q else 3600))
    info = dict(
        assumptions=[
            'tokenizer steps are decided from an arbitrary state satisfying the stated representation invariant (inductive step); the invariant holds initially (ArxmlLexer::new: cursor 0 or 3, line 1, no deferred token)',
            'allocation never fails (Kani default); PathBuf of the source name is empty in harnesses (its content is never inspected by the code under check)',
            'error values are not dropped inside harnesses (mem::forget) - drop glue of AutosarDataError is not part of the claim',
        ],
        outside_claim=[
            'stack exhaustion by deeply nested elements (parse_element recursion): a SAT encoding has no stack model',
            'inputs longer than the stated per-harness bounds',
            'whole-document statement "check_buffer accepts whatever load_buffer accepts": both run the same kernels (decided here) but the >=150-byte header is beyond a symbolic buffer',
            'parse_element / find_element_in_spec_checked / check_multiplicity (element tree behind Arc<RwLock>, see DESIGN.md section 6)',
        ],
        mem_kb=24 * 1024 * 1024,
    )
    return hs, {}, info
