"""C02 - the loader is total: arbitrary bytes never panic, crash or hang it; error lines lie within the input.

Decided per real function as inductive steps from an arbitrary valid tokenizer state (DESIGN.md 5/C02): each harness makes
the input buffer, its length, the cursor, the line counter and the deferred token symbolic, assumes the representation invariant
plus exactly the precondition the dispatcher establishes, runs ONE real step and asserts: no panic / arithmetic overflow /
out-of-bounds slice (Kani's built-in checks on the compiled code), invariant afterwards, strict progress of the cursor (=> the
measure len - bufpos decreases => termination), error line within 1..=number of lines.
"""
from vlib.core import Harness, E2Spec


def lex(tier, macro, fn, n, extra_unw=3, timeout=None, claim='', role='main', suffix='', unwindset=None):
    name = f'h_c02_{fn}_n{n}{suffix}'
    return Harness(
        name, 'data', 'lexer.rs', f'{macro}!({name}, {n}, {n + extra_unw});',
        functions=[f'lexer::ArxmlLexer::{fn}'],
        bound=f'all buffers of length <= {n} over all 256 byte values; symbolic cursor, line counter and deferred token satisfying the tokenizer invariant; unwind {n + extra_unw}',
        claim=claim or 'no panic/overflow/out-of-bounds; invariant (cursor <= len, 1 <= line <= 1 + newlines consumed, deferred token inside consumed input) preserved; cursor strictly advances; error line within 1..=lines of input',
        timeout=timeout or (420 if tier == 'quick' else 3600), role=role, unwindset=unwindset)


def par(tier, macro, fn, n, unw, timeout=None, claim='', bound='', suffix='', args='', unwindset=None):
    name = f'h_c02_{fn.split("::")[-1]}_n{n}{suffix}'
    return Harness(
        name, 'data', 'parser.rs', f'{macro}!({name}, {n}, {unw}{args});',
        functions=[f'parser::{fn}'],
        bound=bound or f'all byte strings of length <= {n} over all 256 byte values; unwind {unw}',
        claim=claim or 'no panic/overflow/out-of-bounds',
        timeout=timeout or (420 if tier == 'quick' else 3600), unwindset=unwindset)


def build(tier, known):
    q = tier == 'quick'
    hs = []
    n = 8 if q else 12
    hs.append(lex(tier, 'h_lex_characters', 'read_characters', n))
    hs.append(lex(tier, 'h_lex_element_start', 'read_element_start', n))
    hs.append(lex(tier, 'h_lex_element_end', 'read_element_end', n))
    hs.append(lex(tier, 'h_lex_comment', 'read_comment', n))
    hs.append(lex(tier, 'h_lex_xml_header', 'read_xml_header', 6 if q else 8))
    h = Harness('h_c02_read_xml_header_tmpl', 'data', 'lexer.rs', 'h_lex_xml_header_tmpl!(h_c02_read_xml_header_tmpl, 48);',
                functions=['lexer::ArxmlLexer::read_xml_header'],
                bound='44-byte xml declaration skeleton `<?xml version="1.0" encoding="utf-8" s="y"?>` with 9 symbolic holes (separators, all quote characters, one value byte, the byte before `>`), all 256 values each except `>`; unwind 48',
                claim='no panic/overflow/out-of-bounds on the accepting path and its one-byte neighbourhood; invariant preserved; error line within the input',
                timeout=600 if q else 3600)
    if not q:
        hs.append(h)
    hs.append(lex(tier, 'h_lex_next_contracts', 'next', 8 if q else 12, extra_unw=3, suffix='_contracts', unwindset=[(r'ArxmlLexer.*::next$', 'outermost', 1)],
                  claim='dispatcher with the five steps replaced by their contracts (stubs assert the step preconditions assumed above and return any result within the postconditions proved above): real dispatch logic, `>` search, comment-end scan, deferred end token, skip loop: no panic/overflow/out-of-bounds; every step is called inside its precondition; returned and error line within 1..=lines; invariant afterwards; a token other than the deferred end token consumes input; EndOfFile only at the end of the input'))
    if not q:
      hs.append(lex(tier, 'h_lex_next', 'next', 2, extra_unw=3, timeout=3600,
                  claim='cross-check of the contracts: whole dispatcher un-stubbed incl. comment-end scan and skip loop: no panic/overflow/out-of-bounds; returned and error line within 1..=lines; invariant afterwards; a token other than the deferred end token consumes input; EndOfFile only at the end of the input'))
    # ---- parser kernels ----
    hs.append(par(tier, 'h_par_trim_total', 'trim_byte_string', 8 if q else 12, (8 if q else 12) + 2))
    # ---- parser value kernels through engine E2 (String-building code is out of CBMC's reach, DESIGN.md section 3) ----
    hs.append(Harness('n_c02_value_total', 'data', 'parser.rs', '', functions=[], bound='', claim='', role='native'))
    FUNCS = ['parser::ArxmlParser::parse_character_data', 'parser::trim_byte_string', 'parser::ArxmlParser::unescape_string',
             'parser::ArxmlParser::check_version', 'parser::ArxmlParser::optional_error', 'parser::ArxmlParser::error']
    cfgs = []
    for strict in (True, False):
        for n in range(0, (5 if q else 7) + 1):
            cfgs.append(('string_ascii', dict(n=n, kind='string', preserve=False, strict=strict, ascii_only=True), 'all ASCII texts'))
        for n in range(0, (3 if q else 4) + 1):
            cfgs.append(('string_bytes', dict(n=n, kind='string', preserve=True, max_length=2, strict=strict, ascii_only=False), 'ALL byte strings (incl. invalid UTF-8)'))
            cfgs.append(('pattern_bytes', dict(n=n, kind='pattern', max_length=2, strict=strict, ascii_only=False), 'ALL byte strings; validator uninterpreted'))
            cfgs.append(('uint_bytes', dict(n=n, kind='uint', strict=strict, ascii_only=False), 'ALL byte strings'))
            cfgs.append(('float_bytes', dict(n=n, kind='float', strict=strict, ascii_only=False), 'ALL byte strings; f64 parsing uninterpreted'))
            cfgs.append(('enum_bytes', dict(n=n, kind='enum', strict=strict, ascii_only=False), 'ALL byte strings; item lookup uninterpreted; symbolic 2-row table'))
    hs.append(Harness('n_attr_text', 'data', 'parser.rs', '', functions=[], bound='', claim='', role='native'))
    for strict in (True, False):
        for ascii_only, nmax in ((True, 5 if q else 6), (False, 3 if q else 4)):
            for n in range(0, nmax + 1):
                dom = 'all ASCII texts' if ascii_only else 'ALL byte strings (incl. invalid UTF-8)'
                hs.append(E2Spec(f'e2_c02_attrtext_{"ascii" if ascii_only else "bytes"}_{"strict" if strict else "lenient"}_n{n}', 'AttrText',
                                 dict(n=n, mode='total', strict=strict, ascii_only=ascii_only),
                                 functions=['parser::ArxmlParser::parse_attribute_text', 'parser::ArxmlParser::parse_character_data'],
                                 bound=f'{dom} of length exactly {n} as attribute text; element type with two attributes with symbolic names/required flags/version masks; attribute-name lookup uninterpreted',
                                 claim='no panic (index arithmetic of the attribute splitter, value parsing); error and warning lines within the document',
                                 native=('data', 'n_attr_text'), parts=(16 if (n >= 5 or (not ascii_only and n >= 3)) else (4 if n == 4 else 1)), timeout=900 if q else 7200))
    for tag, params, dom in cfgs:
        n = params['n']
        name = f'e2_c02_{tag}_{"strict" if params["strict"] else "lenient"}_n{n}'
        hs.append(E2Spec(name, 'C02ValueTotal', params, functions=FUNCS,
                         bound=f'{dom} of length exactly {n}; {"strict" if params["strict"] else "lenient"} parser; symbolic current line L in a document of T lines; every feasible MIR path explored',
                         claim='no panic (failed MIR assert: arithmetic overflow, index out of bounds; slice/str index; unwrap) on any path; every error and warning names a line in 1..=T',
                         native=('data', 'n_c02_value_total'), parts=(16 if n >= 6 else (8 if n >= 4 else 1)), timeout=900 if q else 7200))
    # ---- whole (mini) documents: the real tokenizer + parse_element + verify_end_of_input on their MIR ----
    hs.append(Harness('n_parse_element_doc', 'data', 'parser.rs', '', functions=[], bound='', claim='', role='native'))
    PFUNCS = ['lexer::ArxmlLexer::next (+ the five token readers)', 'parser::ArxmlParser::parse_element (recursive)', 'parser::ArxmlParser::verify_end_of_input',
              'parser::ArxmlParser::find_element_in_spec_checked', 'check_element_conflict', 'check_multiplicity', 'parse_attribute_text', 'parse_character_data', 'ElementRaw::wrap']
    SCHEMA = 'specification answers given by a mini schema that mirrors the real one: AUTOSAR > AR-PACKAGES (0..1) > AR-PACKAGE* > SHORT-NAME (1), CATEGORY (0..1, symbolic version mask), AR-PACKAGES (0..1); identifier-typed values; any single-bit file version; 11 tokens (5 start tags... text of one symbolic byte, a comment, </AUTOSAR>)'
    for L in range(0, (4 if q else 5) + 1):
        hs.append(E2Spec(f'e2_c02_doc_len{L}', 'ParseElementDocs', dict(length=L, aspect='c02'), functions=PFUNCS,
                         bound=f'ALL {11 ** L} token sequences of length exactly {L} as the body of the root element; ' + SCHEMA,
                         claim='no panic, termination, and every error names a line of the document, for the whole tokenizer + element parser on these documents', native=('data', 'n_parse_element_doc'), parts=(16 if L >= 4 else (4 if L == 3 else 1)), timeout=1500 if q else 7200))
    for base in ([0, 1, 2, 3, 4, 7, 9, 10, 11] if q else range(0, 12)):
        hs.append(E2Spec(f'e2_c02_doc_edits{base}', 'ParseElementDocs', dict(base=base, aspect='c02', sym_texts=(2 if base < 5 or base == 11 else 1), sym_comments=(1 if base == 3 else 0)), functions=PFUNCS,
                         bound=f'seed document no. {base} of mirsym/e2defs.py VALID_DOCS (valid documents and documents with one defect) and ALL its single-token edits (delete, duplicate, replace by any token, insert any token anywhere); ' + SCHEMA,
                         claim='no panic, termination, and every error names a line of the document, for the whole tokenizer + element parser on these documents', native=('data', 'n_parse_element_doc'), parts=(16 if base in (4, 5, 6, 7, 8, 11) else 8), timeout=1500 if q else 7200))
    for K in range(0, (3 if q else 4) + 1):
        hs.append(E2Spec(f'e2_c02_doc_children{K}', 'ParseElementDocs', dict(children=K, aspect='c02', sym_texts=2, sym_comments=1), functions=PFUNCS,
                         bound=f'one AR-PACKAGE with ALL {6 ** K} sequences of exactly {K} children, each one of: SHORT-NAME with a text, CATEGORY with a text, empty AR-PACKAGES, a comment, a stray text, SHORT-NAME without text; the first two texts are one symbolic byte, the first comment has three symbolic bytes; ' + SCHEMA,
                         claim='no panic, termination, and every error names a line of the document, for the whole tokenizer + element parser on these documents', native=('data', 'n_parse_element_doc'), parts=(16 if K >= 3 else (4 if K == 2 else 1)), timeout=1500 if q else 7200))
    # ---- mixed content (documentation text): the third layout branch of the serializer, inline comments, attributes ----
    MIXED = 'schema extension for mixed content: AR-PACKAGE > DESC (0..1) > L-2* (Mixed content, required enum attribute L) > BR (empty element), SUP (character element), text; 8 more tokens (<DESC>, </DESC>, <L-2 L="EN">, </L-2>, <BR/>, <SUP>, </SUP>, <L-2>); package SHORT-NAME fixed to x'
    hs.append(E2Spec('e2_c02_doc_mixed_edits', 'ParseElementDocs', dict(mixed_base=0, aspect='c02', sym_texts=2, first_text_concrete=True), functions=PFUNCS,
                     bound='the seed <AR-PACKAGES><AR-PACKAGE><SHORT-NAME>x</SHORT-NAME><DESC><L-2 L="EN">?<BR/>x</L-2></DESC></AR-PACKAGE></AR-PACKAGES></AUTOSAR> and ALL its single-token edits over the 19 tokens; ' + MIXED + '; ' + SCHEMA,
                     claim='no panic, termination, and every error names a line of the document, for the whole tokenizer + element parser on these documents', native=('data', 'n_parse_element_doc'), parts=16, timeout=1500 if q else 7200))
    info = dict(
        assumptions=[
            'tokenizer steps are decided from an arbitrary state satisfying the stated representation invariant (inductive step); the invariant holds initially (ArxmlLexer::new: cursor 0 or 3, line 1, no deferred token)',
            'allocation never fails (Kani default); PathBuf of the source name is empty in harnesses (its content is never inspected by the code under check)',
            'error values are not dropped inside harnesses (mem::forget) - drop glue of AutosarDataError is not part of the claim',
        ],
        outside_claim=[
            'stack exhaustion by deeply nested elements (parse_element recursion): a SAT encoding has no stack model',
            'inputs longer than the stated per-harness bounds',
            'whole-document statement "check_buffer accepts whatever load_buffer accepts": both run the same kernels (decided here) but the >=150-byte header is beyond a symbolic buffer',
            'parse_element / find_element_in_spec_checked / check_multiplicity (element tree behind Arc<RwLock>, see DESIGN.md section 6)',
        ],
        mem_kb=24 * 1024 * 1024,
    )
    return hs, {}, info
