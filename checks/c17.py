"""C17 - version compatibility (value level only): the compatibility verdict for a value equals check_value, equals re-validating
the value's text for the target version, equals the item table; the returned mask contains the target exactly then."""
from vlib.core import Harness, E2Spec


def build(tier, known):
    hs = [Harness('n_c17_value', 'data', 'chardata.rs', '', functions=[], bound='', claim='', role='native')]
    for kind, dom in (('enum', 'symbolic 2-row item table (items among the first 3 enum items, ANY version masks), symbolic value item, ANY single-bit target version'),
                      ('uint', 'any u64 < 1000, any target version'), ('string', 'any 2 lower-case letters, max_length 3, any target version')):
        hs.append(E2Spec(f'e2_c17_value_{kind}', 'C17Value', dict(kind=kind),
                         functions=['chardata::CharacterData::check_version_compatibility', 'chardata::CharacterData::check_value', 'chardata::CharacterData::parse', 'chardata::CharacterData::serialize_internal'],
                         bound=dom, claim='check_version_compatibility(v, spec, target).0 == check_value(v, spec, target) == parse(text(v), spec, target).is_some() == (item listed with a mask containing target); mask contains target <=> compatible',
                         native=('data', 'n_c17_value'), timeout=600))
    q = tier == 'quick'
    hs.append(Harness('n_c17_doc', 'data', 'element.rs', '', functions=[], bound='', claim='', role='native'))
    DFUNCS = ['arxmlfile::ArxmlFile::set_version', 'arxmlfile::ArxmlFile::check_version_compatibility', 'arxmlfile::ArxmlFile::model', 'arxmlfile::ArxmlFile::downgrade',
              'autosarmodel::AutosarModel::root_element', 'element::Element::check_version_compatibility', 'element::Element::recalc_element_type', 'element::Element::parent',
              'elementraw::ElementRaw::parent', 'element::Element::sub_elements', 'ElementsIterator::next', 'lexer::ArxmlLexer::next', 'parser::ArxmlParser::parse_element', 'parser::ArxmlParser::parse_character_data']
    DOCS = {0: 'one AR-PACKAGE with a SHORT-NAME', 1: 'one AR-PACKAGE with SHORT-NAME and CATEGORY', 2: 'an AR-PACKAGE nested in an AR-PACKAGE, the inner one with a CATEGORY', 3: 'two AR-PACKAGEs, each with a CATEGORY'}
    for d in ((0, 1, 2) if q else (0, 1, 2, 3)):
        hs.append(E2Spec(f'e2_c17_doc{d}', 'C17Doc', dict(doc=d), functions=DFUNCS,
                         bound=f'mini document: {DOCS[d]}; schema AUTOSAR > AR-PACKAGES > AR-PACKAGE* > SHORT-NAME, CATEGORY (enum-typed here; symbolic version mask), AR-PACKAGES; CATEGORY values ANY of the first three enumeration items; '
                               'symbolic 2-row item table (items among the first three, ANY version masks); ANY single-bit source version, ANY single-bit target version; SHORT-NAME text one symbolic byte',
                         claim='for every document that loads strictly in the source version: ArxmlFile::check_version_compatibility(target) lists no incompatibility <=> the same document loads strictly with the target version '
                               '<=> the returned mask contains the target version <=> ArxmlFile::set_version(target) succeeds; a successful set_version stores the target version, a failed one changes nothing',
                         native=('data', 'n_c17_doc'), parts=(1 if d == 0 else (9 if d < 3 else 27)), timeout=1500 if q else 7200, known_keys=['C17-element-value-not-checked']))
    info = dict(
        assumptions=['AutosarVersion::compatible(mask) <=> mask has the bit (decided on the compiled function under C18)', 'E2 library models trusted, validated against the native build',
                     'values conform to the kind of their specification (an enum-typed position holds an enum item): what the loader and the editing API establish'],
        outside_claim=['attributes in the document-level harness (the attribute branch of the walk), reference DEST values, multi-file models (file_membership sets are empty here), element kinds beyond the mini schema; Arc / RwLock / Weak are single-threaded stand-ins'],
    )
    return hs, {}, info
