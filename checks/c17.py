"""C17 - version compatibility (value level only): the compatibility verdict for a value equals check_value, equals re-validating
the value's text for the target version, equals the item table; the returned mask contains the target exactly then."""
from vlib.core import Harness, E2Spec


def build(tier, known):
    hs = [Harness('n_c17_value', 'data', 'chardata.rs', '', functions=[], bound='', claim='', role='native')]
    for kind, dom in (('enum', 'symbolic 2-row item table (items among the first 3 enum items, ANY version masks), symbolic value item, ANY single-bit target version'),
                      ('uint', 'any u64 < 1000, any target version'), ('string', 'any 2 lower-case letters, max_length 3, any target version')):
        hs.append(E2Spec(f'e2_c17_value_{kind}', 'C17Value', dict(kind=kind),
                         functions=['chardata::CharacterData::check_version_compatibility', 'chardata::CharacterData::check_value', 'chardata::CharacterData::parse', 'chardata::CharacterData::serialize_internal'],
                         bound=dom, claim='check_version_compatibility(v, spec, target).0 == check_value(v, spec, target) == parse(text(v), spec, target).is_some() == (item listed with a mask containing target); mask contains target <=> compatible',
                         native=('data', 'n_c17_value'), timeout=600))
    info = dict(
        assumptions=['AutosarVersion::compatible(mask) <=> mask has the bit (decided on the compiled function under C18)', 'E2 library models trusted, validated against the native build',
                     'values conform to the kind of their specification (an enum-typed position holds an enum item): what the loader and the editing API establish'],
        outside_claim=['the recursive compatibility walk over elements (Element::check_version_compatibility, recalc_element_type), ArxmlFile::set_version, multi-file minimum: element tree behind Arc<RwLock> (DESIGN.md section 6) - a change there is NOT detected'],
    )
    return hs, {}, info
