"""C20 - typed values: numeric interpretation of text is exact (integers of every width, booleans, radix-prefixed floats).

Engine E2 executes the generic MIR of CharacterData::parse_integer with T bound to each primitive integer type, parse_bool and
parse_float, on symbolic ASCII texts, and compares with an independent reading of the AUTOSAR lexical forms (wide bit-vectors).
"""
from vlib.core import Harness, E2Spec


def build(tier, known):
    q = tier == 'quick'
    hs = [Harness(n, 'data', 'chardata.rs', '', functions=[], bound='', claim='', role='native') for n in ('n_c20_integer', 'n_c20_bool', 'n_c20_float_radix', 'n_c20_float_special')]
    # (type, longest text whose overflow boundary matters): decimal digits / 0x / 0b / octal forms
    widths = {'u8': (4, 10), 'i8': (5, 10), 'u16': (7, 18), 'i16': (7, 18), 'u32': (12, 34), 'i32': (12, 34), 'u64': (14, 24), 'i64': (14, 24)}
    for ty, (nq, nt) in widths.items():
        nmax = nq if q else nt
        for n in range(0, nmax + 1):
            hs.append(E2Spec(f'e2_c20_int_{ty}_n{n}', 'C20Integer', dict(n=n, ty=ty),
                             functions=['chardata::CharacterData::parse_integer::<T> (T = %s)' % ty],
                             bound=f'all ASCII texts of length exactly {n}; T = {ty}',
                             claim='for every text of the forms 0 | [+-]?[1-9][0-9]* | 0[xX][0-9a-fA-F]+ | 0[bB][01]+ | 0[0-7]+: Some(v) with v the exact value iff it fits T, None otherwise',
                             native=('data', 'n_c20_integer'), parts=(8 if n >= 18 else 1), timeout=900 if q else 7200))
    # long radix-prefixed / octal texts (first byte '0'): reach the 2^64 boundary of hex (19 bytes) and octal (23 bytes) texts
    for ty in ('u8', 'i32', 'u64', 'i64'):
        lo = widths[ty][0 if q else 1] + 1
        for n in range(lo, (24 if q else 68) + 1):
            hs.append(E2Spec(f'e2_c20_int0_{ty}_n{n}', 'C20Integer', dict(n=n, ty=ty, first=0x30),
                             functions=['chardata::CharacterData::parse_integer::<T> (T = %s)' % ty],
                             bound=f'all ASCII texts of length exactly {n} that start with `0` (hexadecimal, binary and octal forms); T = {ty}',
                             claim='Some(v) with v the exact value iff it fits T, None otherwise',
                             native=('data', 'n_c20_integer'), timeout=900 if q else 7200))
    hs.append(E2Spec('e2_c20_float_nonfinite', 'C20FloatSpecial', dict(), functions=['chardata::CharacterData::serialize_internal', 'chardata::CharacterData::parse_float'],
                     bound='every f64 bit pattern that is NaN, +inf or -inf', claim='parse_float(serialize(v)) is v (NaN for NaN)',
                     native=('data', 'n_c20_float_special'), timeout=600))
    for n in range(0, 7):
        hs.append(E2Spec(f'e2_c20_bool_n{n}', 'C20Bool', dict(n=n), functions=['chardata::CharacterData::parse_bool'],
                         bound=f'all ASCII texts of length exactly {n}', claim='true/1 -> Some(true), false/0 -> Some(false), anything else -> None',
                         native=('data', 'n_c20_bool'), timeout=600))
    for n in range(0, (10 if q else 20) + 1):
        hs.append(E2Spec(f'e2_c20_float_radix_n{n}', 'C20FloatRadix', dict(n=n), functions=['chardata::CharacterData::parse_float'],
                         bound=f'all ASCII texts of length exactly {n}',
                         claim='0 / 0x.. / 0b.. / 0[0-7].. texts that fit 64 bits are returned as exactly (value as f64) (round to nearest even); never nothing',
                         native=('data', 'n_c20_float_radix'), timeout=900 if q else 7200))
    info = dict(
        assumptions=['T of the generic MIR body is bound by modelling <T as Num>::from_str_radix as the primitive from_str_radix and <T as TryFrom<u64>>::try_from as the range check (what num_traits / core do for the primitive integers)',
                     'E2 library models trusted, validated against the native build'],
        outside_claim=['correct rounding of decimal/exponent float texts (core::num::dec2flt) and shortest-round-trip float printing (core::fmt): not encodable within reach',
                       'format -> parse of u64/f64 values (goes through core::fmt); enum and string round trips are C18 / C01',
                       'texts longer than the stated bounds (u64/i64: decimal overflow boundary at 20 digits is in the thorough tier only)'],
    )
    return hs, {}, info
