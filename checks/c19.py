"""C19 - pattern validators accept exactly the language of their published regex.

For every CharacterDataSpec::Pattern entry of the real CHARACTER_DATA table (read through the compiled table, by index):
the entry's check_fn is called through its function pointer on a symbolic byte string and compared with a reference DFA
generated (at every run) from the regex text of the same entry in /repo's specification.rs; the harness also asserts that the
compiled entry's regex text equals the text the reference was generated from (so a swapped check_fn or regex is a SAT answer).
"""
import os
import re
import sys
sys.path.insert(0, os.path.join(os.path.dirname(os.path.abspath(__file__)), '..', 'tools'))
import regex_dfa as R
from vlib.core import Harness, E2Spec, SPEC_SRC


# per-validator bounds where the default bound does not finish under the per-harness cap (measured on this machine)
# validators that allocate (Vec) are decided by engine E2 on their MIR instead of CBMC (which runs out of memory at 3 bytes, measured)
E2_VALIDATORS = {'validate_regex_15': dict(quick=15, thorough=18), 'validate_regex_17': dict(quick=18, thorough=20)}
BOUNDS = {
    # validate_regex_15 collects into a Vec (heap): CBMC runs out of memory at 4 symbolic bytes (measured) -> 3 bytes, long strings not covered
    ('quick', 'validate_regex_15'): dict(full=3, alpha=0),
    ('thorough', 'validate_regex_15'): dict(full=3, alpha=0),
    ('quick', 'validate_regex_17'): dict(alpha=0),
    ('quick', 'validate_regex_24'): dict(alpha=10),
}


def table_entries():
    """[(index, kind, text)] of CHARACTER_DATA in specification.rs"""
    src = open(os.path.join(SPEC_SRC, 'specification.rs'), encoding='utf-8').read()
    m = re.search(r'static CHARACTER_DATA: \[CharacterDataSpec; (\d+)\] = \[\n', src)
    if not m:
        raise RuntimeError('CHARACTER_DATA table not found in specification.rs')
    n = int(m.group(1))
    body = src[m.end():]
    end = body.index('\n];')
    body = body[:end]
    entries = []
    for ln in body.split('\n'):
        s = ln.strip()
        if s.startswith('CharacterDataSpec::'):
            entries.append(s)
        elif s and entries:
            entries[-1] += ' ' + s
    if len(entries) != n:
        raise RuntimeError(f'CHARACTER_DATA: declared {n} entries, parsed {len(entries)}')
    return entries


def dfa_depth(d):
    """(min accepted length, eccentricity of the start state over live states)"""
    dist = {0: 0}
    q = [0]
    while q:
        x = q.pop(0)
        for c in range(d['ncls']):
            t = d['trans'][x][c]
            if t not in dist:
                dist[t] = dist[x] + 1
                q.append(t)
    minacc = min((dist[s] for s in dist if d['accept'][s]), default=None)
    live = [s for s in dist if s != d['dead']]
    return minacc, max(dist[s] for s in live)


def reduced_alphabet(d, maxsyms=8):
    per = {}
    for b in range(256):
        per.setdefault(d['cls'][b], []).append(b)
    # drop the class that leads to the dead state from every state (keep one representative of it)
    alph = []
    for c, bs in sorted(per.items()):
        alph.append(bs[0])
    if len(alph) * 2 <= maxsyms:
        for c, bs in sorted(per.items()):
            if bs[-1] not in alph:
                alph.append(bs[-1])
    return sorted(set(alph))


def build(tier, known):
    entries = table_entries()
    gen = []
    hs = []
    info = dict(
        assumptions=[
            'published regex read as XSD pattern: whole-string match; `.` = any byte except \\n,\\r and inputs containing \\n/\\r are outside the claim for patterns using `.`; \\d = [0-9] and non-ASCII input is outside the claim for patterns using \\d',
            'reference DFA compiler (tools/regex_dfa.py) is trusted; it is cross-checked against python re.fullmatch on its transition cover at every run',
            'Kani/CBMC models of core slice/iterator code; allocation never fails (validate_regex_15 collects into a Vec)',
        ],
        outside_claim=['byte strings longer than the stated per-harness bound',
                       'the max_length field of Pattern entries (enforced by the callers, see C08)'],
    )
    pairs = []
    lookup = []
    for idx, text in enumerate(entries):
        if not text.startswith('CharacterDataSpec::Pattern'):
            continue
        m = R.PAT.search(text)
        if not m:
            raise RuntimeError('unparsable Pattern entry: ' + text[:200])
        fn, rx = m.group(1), m.group(2)
        k = fn.split('_')[-1]
        d = R.compile_regex(rx)
        nsel, bad = R.selftest(rx)
        if bad:
            raise RuntimeError(f'reference DFA for {rx!r} disagrees with python re on {bad[:3]!r}')
        refname = f'ref_e{idx}'
        gen.append(R.emit_rust(refname, d))
        minacc, depth = dfa_depth(d)
        lookup.append((idx, fn, refname))
        if fn == 'validate_regex_24':
            # the {0,127} counters need segments of 128/129 characters: long inputs with a constant prefix and a symbolic tail
            for n in ((128, 129) if tier == 'quick' else (127, 128, 129, 130)):
                hs.append(E2Spec(f'e2_c19_e{idx}_re{k}_long_n{n}', 'C19Validator',
                                 dict(fn='regex::' + fn, n=n, entry=idx, fixed_prefix=[0x61, 124], dfa=dict(cls=d['cls'], trans=d['trans'], accept=d['accept'], dead=d['dead']), _crates=['spec']),
                                 functions=[f'regex::{fn}', 'regex::validate_regex_8 (called per path segment)'],
                                 bound=f'all byte strings of length exactly {n} whose first 124 bytes are the letter `a` and whose remaining {n - 124} bytes are arbitrary (all 256 values)',
                                 claim=f'check_fn(s) == fullmatch(r"{rx}", s) around the 128-character segment limit',
                                 native=('spec', 'n_c19_validator'), parts=1, timeout=900 if tier == 'quick' else 3600))
        if fn in E2_VALIDATORS:
            nmax = E2_VALIDATORS[fn][tier]
            pairs.append((idx, fn, 'r#"' + rx + '"#', m.group(4)))
            for n in range(0, nmax + 1):
                if tier == 'quick' and fn == 'validate_regex_15' and n == 14:
                    continue      # 2^n paths: 13 and 15 (the shortest member has 15 bytes) are kept in the quick tier
                hs.append(E2Spec(f'e2_c19_e{idx}_re{k}_n{n}', 'C19Validator',
                                 dict(fn='regex::' + fn, n=n, entry=idx, dfa=dict(cls=d['cls'], trans=d['trans'], accept=d['accept'], dead=d['dead']), _crates=['spec']),
                                 functions=[f'regex::{fn} (+ its closures)'],
                                 bound=f'all byte strings of length exactly {n} over all 256 byte values; every feasible MIR path explored',
                                 claim=f'check_fn(s) == fullmatch(r"{rx}", s); reference DFA {d["nstates"]} states as one z3 term',
                                 native=('spec', 'n_c19_validator'), parts=(16 if n >= 12 else (4 if n >= 9 else 1)), timeout=900 if tier == 'quick' else 7200))
            continue
        nfull = 8 if tier == 'quick' else 12
        ov = BOUNDS.get((tier, fn), {})
        nfull = int(os.environ.get('VERIF_C19_FULL', ov.get('full', nfull)))
        if '"' in rx or '#' in rx and '"#' in rx:
            raise RuntimeError('regex text not embeddable')
        lit = 'r#"' + rx + '"#'
        name = f'h_c19_e{idx}_re{k}_full_n{nfull}'
        hs.append(Harness(
            name, 'spec', 'spec_lib.rs',
            f'h_regex_entry!({name}, crate::regex::{fn}, {refname}, {refname}_dom, {nfull}, {nfull + 2}, {"true" if (minacc is not None and minacc <= nfull) else "false"});',
            functions=[f'regex::{fn} (= CHARACTER_DATA[{idx}].check_fn, see h_c19_table_pairs)'],
            bound=f'all byte strings of length <= {nfull} over all 256 byte values; unwind {nfull + 2}',
            claim=f'check_fn(s) == fullmatch(r"{rx}", s); reference DFA {d["nstates"]} states, min accepted length {minacc}, depth {depth}',
            timeout=300 if tier == 'quick' else 1800))
        pairs.append((idx, fn, lit, m.group(4)))
        # long strings over a reduced alphabet: reach every transition of the reference automaton
        want = depth + 2
        cap = 26 if tier == 'quick' else 132
        if fn in ('validate_regex_8', 'validate_regex_22', 'validate_regex_24') and tier == 'thorough':
            want = 131
        nred = min(want, cap)
        nred = int(os.environ.get('VERIF_C19_ALPHA', ov.get('alpha', nred)))
        if nred > nfull:
            alph = reduced_alphabet(d)
            alit = 'b"' + ''.join('\\x%02x' % b for b in alph) + '"'
            name = f'h_c19_e{idx}_re{k}_alpha_n{nred}'
            hs.append(Harness(
                name, 'spec', 'spec_lib.rs',
                f'h_regex_entry_alpha!({name}, crate::regex::{fn}, {refname}, {alit}, {nred}, {nred + 2});',
                functions=[f'regex::{fn} (= CHARACTER_DATA[{idx}].check_fn, see h_c19_table_pairs)'],
                bound=f'all strings of length <= {nred} over the {len(alph)}-byte alphabet {bytes(alph)!r} (one or two representatives per byte class of the reference DFA); unwind {nred + 2}',
                claim=f'check_fn(s) == fullmatch(r"{rx}", s); reference depth {depth}' + ('' if nred >= want else f' (bound below depth+2={want})'),
                timeout=300 if tier == 'quick' else 3600))
    # native dispatch table entry -> (validator, reference) for E2 counterexample replay
    arms = '\n'.join(f'        {idx} => (crate::regex::{fn} as fn(&[u8]) -> bool, {ref} as fn(&[u8]) -> bool),' for idx, fn, ref in lookup)
    gen.append(f'''
#[cfg(not(kani))]
fn n_c19_lookup(entry: usize) -> (fn(&[u8]) -> bool, fn(&[u8]) -> bool) {{
    match entry {{
{arms}
        _ => panic!("VK_REPLAY_SHAPE"),
    }}
}}
''')
    gen.append(open(os.path.join(os.path.dirname(os.path.abspath(__file__)), '..', 'harness', 'spec_c19_native.rs.inc')).read())
    hs.append(Harness('n_c19_validator', 'spec', 'spec_lib.rs', '', functions=[], bound='', claim='', role='native'))
    # pairing harness
    body = []
    for idx, fn, lit, ml in pairs:
        mls = f'Some({ml})' if ml else 'None'
        body.append(f'    vk_check!(pattern_entry_is({idx}, crate::regex::{fn}, {lit}.as_bytes(), {mls}), "CHARACTER_DATA[{idx}] is not the (validator, regex, max_length) triple the reference was generated from");')
    maxlen = max(len(l) for _, _, l, _ in pairs)
    ntab = len(entries)
    gen.append(f'''
#[cfg_attr(kani, kani::proof)]
#[cfg_attr(kani, kani::unwind({max(maxlen, ntab) + 3}))]
pub fn h_c19_table_pairs() {{
{chr(10).join(body)}
    vk_check!(count_pattern_entries() == {len(pairs)}, "the compiled table has Pattern entries the driver did not see");
}}
''')
    hs.append(Harness('h_c19_table_pairs', 'spec', 'spec_lib.rs', '',
                      functions=['specification::CHARACTER_DATA (all Pattern entries: check_fn pointer, regex text, max_length)'],
                      bound=f'concrete: {len(pairs)} Pattern entries, {ntab} table rows',
                      claim='each Pattern entry pairs the validator function with the regex text its reference DFA was generated from; no further Pattern entries exist',
                      timeout=600, expect_cover=False))
    info['e2_spec_entries'] = [[idx, fn] for idx, fn, _ in lookup if fn in E2_VALIDATORS or fn == 'validate_regex_24']
    return hs, {'spec_lib.rs': '\n'.join(gen)}, info
