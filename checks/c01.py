"""C01 - loading is faithful; load -> serialize -> load is the identity (value and token kernels, see DESIGN.md 5/C01).

E1 (Kani): the tokenizer hands out exactly the bytes of the document (comment, start tag, end tag, text), trimming removes exactly
   the surrounding XML white space.
E2 (MIR symbolic executor): for every text t (ASCII, |t| <= N) the real parse_character_data / serialize_internal / escape_text /
   unescape_string satisfy load(serialize(load(t))) == load(t) and the second serialization is byte-identical.
"""
from vlib.core import Harness, E2Spec


def lexh(tier, macro, fn, n, what):
    name = f'h_c01_{fn}_n{n}'
    return Harness(name, 'data', 'lexer.rs', f'{macro}!({name}, {n}, {n + 3});',
                   functions=[f'lexer::ArxmlLexer::{fn}'],
                   bound=f'all buffers of length <= {n} over all 256 byte values, symbolic cursor satisfying the tokenizer invariant; unwind {n + 3}',
                   claim=what, timeout=600 if tier == 'quick' else 3600)


def build(tier, known):
    q = tier == 'quick'
    hs = []
    n = 8 if q else 12
    hs.append(lexh(tier, 'h_lex_comment_exact', 'read_comment', n, 'a comment token is exactly the bytes between <!-- and -->; well-formed comments are accepted, others rejected; cursor directly behind'))
    hs.append(lexh(tier, 'h_lex_element_start_exact', 'read_element_start', n, 'element name = bytes up to the first white space, attribute text = rest of the tag (without the / of <a/>); <a/> defers an end token carrying the same name'))
    hs.append(lexh(tier, 'h_lex_characters_exact', 'read_characters', n, 'text token = bytes up to the next < (or end of input); white-space-only flag exact (no significant text dropped)'))
    hs.append(lexh(tier, 'h_lex_element_end_exact', 'read_element_end', n, 'end tag name = bytes between </ and >'))
    hs.append(Harness(f'h_c01_trim_exact_n{n}', 'data', 'parser.rs', f'h_par_trim_exact!(h_c01_trim_exact_n{n}, {n}, {n + 2});',
                      functions=['parser::trim_byte_string'], bound=f'all byte strings of length <= {n}; unwind {n + 2}',
                      claim='exactly the leading and trailing XML white space (space, tab, LF, FF, CR as the tokenizer defines it) is removed',
                      timeout=600 if q else 3600))
    hs.append(Harness('n_c01_text_roundtrip', 'data', 'parser.rs', '', functions=[], bound='', claim='', role='native'))
    nmax = 4 if q else 6
    for preserve in (False, True):
        for strict in (True, False):
            for n in range(0, nmax + 2):
                big = n > nmax
                if big and (preserve or not strict or not q):
                    continue
                name = f'e2_c01_roundtrip_{"keepws" if preserve else "trim"}_{"strict" if strict else "lenient"}_n{n}'
                hs.append(E2Spec(
                    name, 'C01RoundTrip', dict(n=n, strict=strict, preserve=preserve, exclude=[0x3c]),
                    functions=['parser::ArxmlParser::parse_character_data', 'parser::trim_byte_string', 'parser::ArxmlParser::unescape_string',
                               'parser::ArxmlParser::optional_error', 'chardata::CharacterData::serialize_internal', 'chardata::escape_text'],
                    bound=f'all ASCII texts of length exactly {n} without `<` (a text token never contains one); String spec preserve_whitespace={preserve}, max_length=None; {"strict" if strict else "lenient"} parser; every feasible MIR path explored',
                    claim='load(t) = v  =>  load(serialize(v)) = v and serialize(load(serialize(v))) == serialize(v) (byte-identical)',
                    native=('data', 'n_c01_text_roundtrip'), parts=(16 if n >= 5 else (4 if n == 4 else 1)),
                    timeout=900 if q else 7200, known_keys=('C01-edge-whitespace-from-charref',)))
    # any bytes (non-ASCII literal text, invalid UTF-8 in lenient mode)
    for preserve in (False, True):
        for strict in (True, False):
            for n in range(1, (3 if q else 4) + 1):
                name = f'e2_c01_roundtrip_bytes_{"keepws" if preserve else "trim"}_{"strict" if strict else "lenient"}_n{n}'
                hs.append(E2Spec(
                    name, 'C01RoundTrip', dict(n=n, strict=strict, preserve=preserve, exclude=[0x3c], ascii_only=False),
                    functions=['parser::ArxmlParser::parse_character_data', 'chardata::CharacterData::serialize_internal', 'chardata::escape_text'],
                    bound=f'ALL byte strings of length exactly {n} without `<` (multi-byte UTF-8, invalid UTF-8); String spec preserve_whitespace={preserve}; {"strict" if strict else "lenient"} parser',
                    claim='load(t) = v  =>  load(serialize(v)) = v and serialize(load(serialize(v))) == serialize(v) (byte-identical)',
                    native=('data', 'n_c01_text_roundtrip'), parts=(16 if n >= 3 else 1), timeout=900 if q else 7200, known_keys=('C01-edge-whitespace-from-charref',)))
    # ---- whole (mini) documents: the real tokenizer + parse_element + verify_end_of_input on their MIR ----
    hs.append(Harness('n_parse_element_doc', 'data', 'parser.rs', '', functions=[], bound='', claim='', role='native'))
    PFUNCS = ['lexer::ArxmlLexer::next (+ the five token readers)', 'parser::ArxmlParser::parse_element (recursive)', 'parser::ArxmlParser::verify_end_of_input',
              'parser::ArxmlParser::find_element_in_spec_checked', 'check_element_conflict', 'check_multiplicity', 'parse_attribute_text', 'parse_character_data', 'ElementRaw::wrap']
    SCHEMA = 'specification answers given by a mini schema that mirrors the real one: AUTOSAR > AR-PACKAGES (0..1) > AR-PACKAGE* > SHORT-NAME (1), CATEGORY (0..1, symbolic version mask), AR-PACKAGES (0..1); identifier-typed values; any single-bit file version; 11 tokens (5 start tags... text of one symbolic byte, a comment, </AUTOSAR>)'
    for L in range(0, (4 if q else 5) + 1):
        hs.append(E2Spec(f'e2_c01_doc_len{L}', 'ParseElementDocs', dict(length=L, aspect='c01'), functions=PFUNCS,
                         bound=f'ALL {11 ** L} token sequences of length exactly {L} as the body of the root element; ' + SCHEMA,
                         claim='the loaded tree equals an independent reading of the document: elements and text items in document order, comments attached to the following element', native=('data', 'n_parse_element_doc'), parts=(16 if L >= 4 else (4 if L == 3 else 1)), timeout=1500 if q else 7200))
    for base in ([0, 1, 2, 3, 4, 7, 9, 10, 11] if q else range(0, 12)):
        hs.append(E2Spec(f'e2_c01_doc_edits{base}', 'ParseElementDocs', dict(base=base, aspect='c01', sym_texts=(2 if base < 5 or base == 11 else 1), sym_comments=(1 if base == 3 else 0)), functions=PFUNCS,
                         bound=f'seed document no. {base} of mirsym/e2defs.py VALID_DOCS (valid documents and documents with one defect) and ALL its single-token edits (delete, duplicate, replace by any token, insert any token anywhere); ' + SCHEMA,
                         claim='the loaded tree equals an independent reading of the document: elements and text items in document order, comments attached to the following element', native=('data', 'n_parse_element_doc'), parts=(16 if base in (4, 5, 6, 7, 8, 11) else 8), timeout=1500 if q else 7200))
    for K in range(0, (3 if q else 4) + 1):
        hs.append(E2Spec(f'e2_c01_doc_children{K}', 'ParseElementDocs', dict(children=K, aspect='c01', sym_texts=2, sym_comments=1), functions=PFUNCS,
                         bound=f'one AR-PACKAGE with ALL {6 ** K} sequences of exactly {K} children, each one of: SHORT-NAME with a text, CATEGORY with a text, empty AR-PACKAGES, a comment, a stray text, SHORT-NAME without text; the first two texts are one symbolic byte, the first comment has three symbolic bytes; ' + SCHEMA,
                         claim='the loaded tree equals an independent reading of the document: elements and text items in document order, comments attached to the following element', native=('data', 'n_parse_element_doc'), parts=(16 if K >= 3 else (4 if K == 2 else 1)), timeout=1500 if q else 7200))
    SFUNCS = PFUNCS + ['element::Element::serialize_internal', 'element::Element::serialize_newline_indent', 'element::Element::serialize_attributes', 'element::Element::content_type',
                       'element::Element::sub_elements', 'ElementsIterator::next', 'ElementContentIterator::next', 'chardata::CharacterData::serialize_internal', 'chardata::escape_text']
    RT_CLAIM = ('for every document that strict loading accepts: the text written by the real Element::serialize_internal is accepted again by the real tokenizer + parse_element, '
                'the second tree equals the first (names, comments, content items in order, values) and serializing the second tree gives byte-identical text')
    for L in range(0, (3 if q else 4) + 1):
        hs.append(E2Spec(f'e2_c01_doc_rt_len{L}', 'ParseElementDocs', dict(length=L, aspect='c01rt'), functions=SFUNCS,
                         bound=f'ALL {11 ** L} token sequences of length exactly {L} as the body of the root element; ' + SCHEMA,
                         claim=RT_CLAIM, native=('data', 'n_parse_element_doc'), parts=(16 if L >= 4 else (4 if L == 3 else 1)), timeout=1500 if q else 7200,
                         known_keys=['C01-comment-inside-character-data']))
    for base in ([0, 2, 3, 4, 11] if q else range(0, 12)):
        hs.append(E2Spec(f'e2_c01_doc_rt_edits{base}', 'ParseElementDocs', dict(base=base, aspect='c01rt', sym_texts=(2 if base < 5 or base == 11 else 1), sym_comments=(1 if base == 3 else 0)), functions=SFUNCS,
                         bound=f'seed document no. {base} of mirsym/e2defs.py VALID_DOCS and ALL its single-token edits (delete, duplicate, replace by any token, insert any token anywhere); ' + SCHEMA,
                         claim=RT_CLAIM, native=('data', 'n_parse_element_doc'), parts=(16 if base in (4, 5, 6, 7, 8, 11) else 8), timeout=1500 if q else 7200,
                         known_keys=['C01-comment-inside-character-data']))
    for K in range(0, (3 if q else 4) + 1):
        hs.append(E2Spec(f'e2_c01_doc_rt_children{K}', 'ParseElementDocs', dict(children=K, aspect='c01rt', sym_texts=2, sym_comments=1), functions=SFUNCS,
                         bound=f'one AR-PACKAGE with ALL {6 ** K} sequences of exactly {K} children, each one of: SHORT-NAME with a text, CATEGORY with a text, empty AR-PACKAGES, a comment, a stray text, SHORT-NAME without text; the first two texts are one symbolic byte, the first comment has three symbolic bytes; ' + SCHEMA,
                         claim=RT_CLAIM, native=('data', 'n_parse_element_doc'), parts=(16 if K >= 3 else (4 if K == 2 else 1)), timeout=1500 if q else 7200,
                         known_keys=['C01-comment-inside-character-data']))
    # ---- mixed content (documentation text): the third layout branch of the serializer, inline comments, attributes ----
    MIXED = 'schema extension for mixed content: AR-PACKAGE > DESC (0..1) > L-2* (Mixed content, required enum attribute L) > BR (empty element), SUP (character element), text; 8 more tokens (<DESC>, </DESC>, <L-2 L="EN">, </L-2>, <BR/>, <SUP>, </SUP>, <L-2>); package SHORT-NAME fixed to x'
    for K in range(0, (2 if q else 3) + 1):
        hs.append(E2Spec(f'e2_c01_doc_rt_mixed{K}', 'ParseElementDocs', dict(mixed=K, aspect='c01rt', sym_texts=3, first_text_concrete=True, sym_comments=0), functions=SFUNCS + ['element::Element::serialize_attributes', 'parser::ArxmlParser::parse_attribute_text'],
                         bound=f'one package with DESC > L-2 L="EN" holding ALL {4 ** K} sequences of exactly {K} items, each one of: text (one symbolic byte, the first two), <BR/>, <SUP>text</SUP>, a comment; ' + MIXED + '; ' + SCHEMA,
                         claim=RT_CLAIM + ' (attributes included)', native=('data', 'n_parse_element_doc'), parts=(16 if K >= 3 else (8 if K == 2 else 1)), timeout=1500 if q else 7200,
                         known_keys=['C01-comment-inside-character-data']))
    hs.append(E2Spec('e2_c01_doc_rt_mixed_edits', 'ParseElementDocs', dict(mixed_base=0, aspect='c01rt', sym_texts=2, first_text_concrete=True), functions=SFUNCS,
                     bound='the seed <AR-PACKAGES><AR-PACKAGE><SHORT-NAME>x</SHORT-NAME><DESC><L-2 L="EN">?<BR/>x</L-2></DESC></AR-PACKAGE></AR-PACKAGES></AUTOSAR> and ALL its single-token edits over the 19 tokens; ' + MIXED + '; ' + SCHEMA,
                     claim=RT_CLAIM + ' (attributes included)', native=('data', 'n_parse_element_doc'), parts=16, timeout=1500 if q else 7200, known_keys=['C01-comment-inside-character-data']))
    info = dict(
        assumptions=[
            'E2: texts are ASCII up to the larger bound, arbitrary bytes up to the smaller one (values reach non-ASCII only through decoded character references, which are covered); the text token contains no `<` (tokenizer postcondition, decided by h_c01_read_characters)',
            'E2 library models (mirsym/models.py) of the core/alloc functions called by the executed MIR are trusted; validated against the native build (tools/e2_validate.py)',
            'tokenizer steps are decided from an arbitrary state satisfying the tokenizer invariant',
        ],
        outside_claim=[
            'element/attribute order, mixed-content layout, header/standalone/schemaLocation emission, per-version tables (element tree behind Arc<RwLock>, DESIGN.md section 6)',
            'texts longer than the stated bounds; non-ASCII literal text',
            'numbers and enum values (C20, C18)',
        ],
        mem_kb=24 * 1024 * 1024,
    )
    return hs, {}, info
