"""C08 - strict and lenient validation agree, strict validation has no holes (value level, DESIGN.md 5/C08).

Engine E2: the MIR of parse_character_data (with trim_byte_string, unescape_string, check_version, optional_error, error) is
executed twice on the same symbolic text - once with a strict, once with a lenient parser - for every kind of value
specification; the relation between the two outcomes is decided on every feasible path pair.
"""
from vlib.core import Harness, E2Spec

FUNCS = ['parser::ArxmlParser::parse_character_data', 'parser::trim_byte_string', 'parser::ArxmlParser::unescape_string',
         'parser::ArxmlParser::check_version', 'parser::ArxmlParser::optional_error', 'parser::ArxmlParser::error']
CLAIM = ('strict Ok(v) <=> lenient Ok(v) without warnings; lenient warnings => strict Err equal (kind, line) to the first warning; '
         'lenient Err => strict Err; strict Ok => the documented constraint of the value type holds (length, validator, decimal '
         'reading, well-formed references, item listed for the element and available in the file version)')


def build(tier, known):
    q = tier == 'quick'
    hs = [Harness('n_c08_value', 'data', 'parser.rs', '', functions=[], bound='', claim='', role='native')]
    cfgs = []
    ns = 5 if q else 7
    for n in range(0, ns + 1):
        cfgs.append(('string', dict(n=n, kind='string', preserve=False, max_length=None, exclude=[0x3c]), 'all ASCII texts without `<`'))
    for n in range(0, (4 if q else 5) + 1):
        cfgs.append(('stringml', dict(n=n, kind='string', preserve=True, max_length=2, exclude=[0x3c]), 'all ASCII texts without `<`, preserve_whitespace, max_length 2'))
        cfgs.append(('pattern', dict(n=n, kind='pattern', max_length=2), 'all ASCII texts; validator = arbitrary deterministic predicate (uninterpreted function), max_length 2'))
        cfgs.append(('uint', dict(n=n, kind='uint'), 'all ASCII texts'))
        cfgs.append(('float', dict(n=n, kind='float'), 'all ASCII texts; str::parse::<f64> = arbitrary deterministic partial function (uninterpreted)'))
        cfgs.append(('enum', dict(n=n, kind='enum'), 'all ASCII texts; item lookup = arbitrary deterministic partial function; symbolic 2-row item table (any items, any version masks), any single-bit file version'))
    for n in range(0, (2 if q else 3) + 1):
        cfgs.append(('string_bytes', dict(n=n, kind='string', preserve=False, max_length=None, exclude=[0x3c], ascii_only=False), 'ALL byte strings without `<` (incl. invalid UTF-8)'))
        cfgs.append(('pattern_bytes', dict(n=n, kind='pattern', max_length=None, ascii_only=False), 'ALL byte strings (incl. invalid UTF-8); validator uninterpreted'))
    for n in range(0, (3 if q else 4) + 1):
        cfgs.append(('uint_bytes', dict(n=n, kind='uint', ascii_only=False), 'ALL byte strings (incl. non-ASCII white space, invalid UTF-8)'))
        cfgs.append(('float_bytes', dict(n=n, kind='float', ascii_only=False), 'ALL byte strings; f64 parsing uninterpreted'))
    for tag, params, dom in cfgs:
        n = params['n']
        hs.append(E2Spec(f'e2_c08_{tag}_n{n}', 'C08Value', params, functions=FUNCS,
                         bound=f'{dom}; length exactly {n}; symbolic current line L in a document of T lines; every feasible MIR path pair explored',
                         claim=CLAIM, native=('data', 'n_c08_value'), parts=(16 if (n >= 6 or (n >= 3 and not params.get('ascii_only', True))) else (8 if n == 5 else 1)), timeout=900 if q else 7200))
    hs.append(Harness('n_attr_text', 'data', 'parser.rs', '', functions=[], bound='', claim='', role='native'))
    for n in range(0, (5 if q else 6) + 1):
        hs.append(E2Spec(f'e2_c08_attrtext_n{n}', 'AttrText', dict(n=n, mode='relational'),
                         functions=['parser::ArxmlParser::parse_attribute_text', 'parser::ArxmlParser::parse_character_data', 'parser::ArxmlParser::check_version', 'parser::ArxmlParser::optional_error'],
                         bound=f'all ASCII attribute texts of length exactly {n}; element type with two attributes (string-typed, unsigned-integer-typed) with symbolic names, required flags and version masks; attribute-name lookup uninterpreted; any single-bit file version',
                         claim='strict Ok <=> lenient Ok without warnings, same attributes; first lenient warning = strict error; strict Ok => every required attribute present and every attribute listed for the element with a version mask containing the file version',
                         native=('data', 'n_attr_text'), parts=(16 if n >= 5 else (4 if n == 4 else 1)), timeout=900 if q else 7200))
    hs.append(Harness('n_c08_element', 'data', 'parser.rs', '', functions=[], bound='', claim='', role='native'))
    for mode, fn_, dom in (('multiplicity', 'check_multiplicity', 'container mode in {Sequence, Choice, Bag, Mixed}, multiplicity in {none, ZeroOrOne, One, Any}, two existing sub-elements and the new one with symbolic names'),
                           ('conflict', 'check_element_conflict', 'index vectors of length 0..2 / 1..2 with symbolic entries, content mode of the common group in {Sequence, Choice, Bag, Mixed}'),
                           ('find', 'find_element_in_spec_checked', 'sub-element listed or not, arbitrary version mask, any single-bit file version (find_sub_element(name, v) finds it iff listed and the mask contains v)')):
        hs.append(E2Spec(f'e2_c08_element_{mode}', 'C08Element', dict(mode=mode),
                         functions=[f'parser::ArxmlParser::{fn_}', 'parser::ArxmlParser::check_version', 'parser::ArxmlParser::optional_error', 'parser::ArxmlParser::error'],
                         bound=f'the answers of the specification crate are symbolic: {dom}',
                         claim='strict Ok <=> lenient Ok without warnings; first lenient warning = strict error; strict rejects exactly the documented violation (repeated single-occurrence sub-element / two different alternatives of an exclusive choice / sub-element unknown or not available in the file version)',
                         native=('data', 'n_c08_element'), timeout=600))
    # ---- whole (mini) documents: the real tokenizer + parse_element + verify_end_of_input on their MIR ----
    hs.append(Harness('n_parse_element_doc', 'data', 'parser.rs', '', functions=[], bound='', claim='', role='native'))
    PFUNCS = ['lexer::ArxmlLexer::next (+ the five token readers)', 'parser::ArxmlParser::parse_element (recursive)', 'parser::ArxmlParser::verify_end_of_input',
              'parser::ArxmlParser::find_element_in_spec_checked', 'check_element_conflict', 'check_multiplicity', 'parse_attribute_text', 'parse_character_data', 'ElementRaw::wrap']
    SCHEMA = 'specification answers given by a mini schema that mirrors the real one: AUTOSAR > AR-PACKAGES (0..1) > AR-PACKAGE* > SHORT-NAME (1), CATEGORY (0..1, symbolic version mask), AR-PACKAGES (0..1); identifier-typed values; any single-bit file version; 11 tokens (5 start tags... text of one symbolic byte, a comment, </AUTOSAR>)'
    for L in range(0, (4 if q else 5) + 1):
        hs.append(E2Spec(f'e2_c08_doc_len{L}', 'ParseElementDocs', dict(length=L, aspect='c08'), functions=PFUNCS,
                         bound=f'ALL {11 ** L} token sequences of length exactly {L} as the body of the root element; ' + SCHEMA,
                         claim='strict Ok <=> lenient Ok without warnings; first lenient warning = strict error; strict Ok => the document is valid for the schema (known sub-elements in context and version, single-occurrence elements not repeated, SHORT-NAME present, character content only where allowed, proper nesting, nothing but white space / comments after the root)', native=('data', 'n_parse_element_doc'), parts=(16 if L >= 4 else (4 if L == 3 else 1)), timeout=1500 if q else 7200))
    for base in ([0, 1, 2, 3, 4, 7, 9, 10, 11] if q else range(0, 12)):
        hs.append(E2Spec(f'e2_c08_doc_edits{base}', 'ParseElementDocs', dict(base=base, aspect='c08', sym_texts=(2 if base < 5 or base == 11 else 1), sym_comments=(1 if base == 3 else 0)), functions=PFUNCS,
                         bound=f'seed document no. {base} of mirsym/e2defs.py VALID_DOCS (valid documents and documents with one defect) and ALL its single-token edits (delete, duplicate, replace by any token, insert any token anywhere); ' + SCHEMA,
                         claim='strict Ok <=> lenient Ok without warnings; first lenient warning = strict error; strict Ok => the document is valid for the schema (known sub-elements in context and version, single-occurrence elements not repeated, SHORT-NAME present, character content only where allowed, proper nesting, nothing but white space / comments after the root)', native=('data', 'n_parse_element_doc'), parts=(16 if base in (4, 5, 6, 7, 8, 11) else 8), timeout=1500 if q else 7200))
    for K in range(0, (3 if q else 4) + 1):
        hs.append(E2Spec(f'e2_c08_doc_children{K}', 'ParseElementDocs', dict(children=K, aspect='c08', sym_texts=2, sym_comments=1), functions=PFUNCS,
                         bound=f'one AR-PACKAGE with ALL {6 ** K} sequences of exactly {K} children, each one of: SHORT-NAME with a text, CATEGORY with a text, empty AR-PACKAGES, a comment, a stray text, SHORT-NAME without text; the first two texts are one symbolic byte, the first comment has three symbolic bytes; ' + SCHEMA,
                         claim='strict Ok <=> lenient Ok without warnings; first lenient warning = strict error; strict Ok => the document is valid for the schema (known sub-elements in context and version, single-occurrence elements not repeated, SHORT-NAME present, character content only where allowed, proper nesting, nothing but white space / comments after the root)', native=('data', 'n_parse_element_doc'), parts=(16 if K >= 3 else (4 if K == 2 else 1)), timeout=1500 if q else 7200))
    # ---- mixed content (documentation text): the third layout branch of the serializer, inline comments, attributes ----
    MIXED = 'schema extension for mixed content: AR-PACKAGE > DESC (0..1) > L-2* (Mixed content, required enum attribute L) > BR (empty element), SUP (character element), text; 8 more tokens (<DESC>, </DESC>, <L-2 L="EN">, </L-2>, <BR/>, <SUP>, </SUP>, <L-2>); package SHORT-NAME fixed to x'
    hs.append(E2Spec('e2_c08_doc_mixed_edits', 'ParseElementDocs', dict(mixed_base=0, aspect='c08rel', sym_texts=2, first_text_concrete=True), functions=PFUNCS,
                     bound='the seed <AR-PACKAGES><AR-PACKAGE><SHORT-NAME>x</SHORT-NAME><DESC><L-2 L="EN">?<BR/>x</L-2></DESC></AR-PACKAGE></AR-PACKAGES></AUTOSAR> and ALL its single-token edits over the 19 tokens; ' + MIXED + '; ' + SCHEMA,
                     claim='strict Ok <=> lenient Ok without warnings; first lenient warning = strict error (relation only: the independent schema reader does not cover mixed content)', native=('data', 'n_parse_element_doc'), parts=16, timeout=1500 if q else 7200))
    info = dict(
        assumptions=['E2 library models (mirsym/models.py) are trusted and validated against the native build',
                     'the pattern validator, f64 parsing and the enum item lookup are uninterpreted deterministic functions: the claim holds for every validator / table'],
        outside_claim=['agreement on whole documents (parse_element and the element tree, DESIGN.md section 6)', 'texts longer than the stated bounds'],
    )
    return hs, {}, info
