"""C04 - the path index is exact (one step from a consistent state): rename and removal kernels on their MIR."""
from vlib.core import Harness, E2Spec

FUNCS = ['elementraw::ElementRaw::set_item_name', 'elementraw::ElementRaw::item_name', 'elementraw::ElementRaw::path', 'elementraw::ElementRaw::path_unchecked', 'elementraw::ElementRaw::parent',
         'elementraw::ElementRaw::set_character_data_internal', 'chardata::CharacterData::check_value', 'autosarmodel::AutosarModel::get_element_by_path', 'autosarmodel::AutosarModel::fix_identifiables',
         'elementraw::ElementRaw::remove_sub_element', 'elementraw::ElementRaw::remove_internal', 'autosarmodel::AutosarModel::remove_identifiable', 'autosarmodel::AutosarModel::remove_reference_origin',
         'element::WeakElement::upgrade', 'element::Element::parent']
MODEL = 'model AUTOSAR > AR-PACKAGES > [P1 (name n1) > AR-PACKAGES > [Q (name q), Q2 (name q2)], P2 (name n2) > four reference elements]; n1 of {l1} bytes, n2 of {l1}+1 bytes (so that n2 may extend n1), q of 1 byte, the four reference texts ANY valid references of the lengths of /n1, /n1/q, /n2 and of the FUTURE path /m (they may designate P1, Q, Q2, a path that only shares the prefix, the future path, or nothing); names ANY identifier; path index (IndexMap) and referrer lists (HashMap) are association lists with symbolic keys in the executor and start consistent with the tree'


def build(tier, known):
    q = tier == 'quick'
    hs = [Harness('n_rename_step', 'data', 'element.rs', '', functions=[], bound='', claim='', role='native'),
          Harness('n_remove_step', 'data', 'element.rs', '', functions=[], bound='', claim='', role='native')]
    shapes = [(1, 1), (1, 2), (2, 2), (2, 3)] if q else [(1, 1), (1, 2), (2, 1), (2, 2), (2, 3), (3, 3), (3, 4)]
    for l1, lm in shapes:
        hs.append(E2Spec(f'e2_c04_rename_{l1}_{lm}', 'RenameStep', dict(l1=l1, lm=lm, aspect='c04'), functions=FUNCS,
                         bound=MODEL.format(l1=l1) + f'; one call P1.set_item_name(m) with m ANY identifier of {lm} bytes (m == n2 possible when the lengths agree)',
                         claim="the identifiable elements that are part of the model afterwards are found under their current paths, the index has exactly these entries, a rename to a sibling's name is rejected and a rejected rename changes nothing; a removed element is unlinked (no parent, no content, not listed)", native=('data', 'n_rename_step'), timeout=900))
    for which in ('p1', 'p2', 'ref'):
        hs.append(E2Spec(f'e2_c04_remove_{which}', 'RemoveStep', dict(l1=1, which=which, aspect='c04'), functions=FUNCS,
                         bound=MODEL.format(l1=1) + f'; one call remove_sub_element of {dict(p1="P1 (with the nested Q and Q2)", p2="P2 (with the references)", ref="the first reference element itself (a leaf)")[which]}',
                         claim="the identifiable elements that are part of the model afterwards are found under their current paths, the index has exactly these entries, a rename to a sibling's name is rejected and a rejected rename changes nothing; a removed element is unlinked (no parent, no content, not listed)", native=('data', 'n_remove_step'), timeout=900))
    info = dict(
        assumptions=['E2 library models (mirsym/models.py) are trusted and validated against the native build',
                     'IndexMap<String, WeakElement> / HashMap<String, Vec<WeakElement>> behave as maps: modelled as association lists whose lookups fork on the equality of symbolic keys (insertion order for iteration)',
                     'Arc / Weak / RwLock are single-threaded stand-ins; format!(..) of strings is interpreted from rustc\'s template byte string; the generic wrapper set_character_data::<String> is value.into() + the non-generic MIR',
                     'the specification crate answers for the five element types of the model (named package, SHORT-NAME with the identifier pattern, reference with a plain string)'],
        outside_claim=['creation of named elements, copy, move between parents and models, merge of files, direct edits of SHORT-NAME text (their kernels need more of the specification model)', 'deeper trees and longer histories are covered only by induction over the consistency invariant, which the code states nowhere; hash-map internals (IndexMap / FxHashMap are modelled as association lists)'],
    )
    return hs, {}, info
