// In-crate harnesses for autosar-data-specification (included by the guarded hook at the end of src/lib.rs).
// The concrete instantiations (names, bounds per tier) and the reference automata are appended by run_check.py.
extern crate std;
use crate::*;

include!(concat!(env!("AUTOSAR_DATA_VERIF_DIR"), "/harness/vk.rs"));

// thin forwarding wrappers so that harnesses in the dependent crate and the native replay can reach crate-private kernels
pub fn api_hashfunc(data: &[u8]) -> (u32, u32, u32) {
    crate::hashfunc(data)
}

// ---------------------------------------------------------------------------------------------------------
// C19: validator == reference DFA of the published regex, for all byte strings of length <= N
// ---------------------------------------------------------------------------------------------------------
// C19 main harness: the (check_fn, regex) pair is read from the real table entry CHARACTER_DATA[IDX]
macro_rules! h_regex_entry {
    ($name:ident, $check_fn:path, $r:ident, $dom:ident, $n:literal, $unw:literal, $has_member:literal) => {
        #[cfg_attr(kani, kani::proof)]
        #[cfg_attr(kani, kani::unwind($unw))]
        pub fn $name() {
            let check_fn = $check_fn;
            let buf: [u8; $n] = vk::any_bytes::<$n>();
            let len = vk::any_usize();
            vk::assume(len <= $n);
            let s = &buf[..len];
            vk::assume($dom(s));
            let want = $r(s);
            let got = check_fn(s);
            vk_cover!(!want && len > 0, "reference rejects some string");
            // (only demanded when the language has a member within the bound)
            vk_cover!(got || !$has_member, "validator accepts some string");
            vk_check!(got == want, "validator and published regex disagree");
        }
    };
}

// pairing: every Pattern entry of the compiled CHARACTER_DATA table carries exactly the (validator, regex text) pair the
// per-entry harnesses were generated for, and there are no other Pattern entries. All concrete: one cheap query.
fn pattern_entry_is(idx: usize, f: fn(&[u8]) -> bool, rx: &[u8], ml: Option<usize>) -> bool {
    match &crate::specification::CHARACTER_DATA[idx] {
        CharacterDataSpec::Pattern { check_fn, regex, max_length } => {
            (*check_fn as usize == f as usize) && bytes_eq(regex.as_bytes(), rx) && *max_length == ml
        }
        _ => false,
    }
}

fn count_pattern_entries() -> usize {
    let mut n = 0;
    let mut i = 0;
    while i < crate::specification::CHARACTER_DATA.len() {
        if let CharacterDataSpec::Pattern { .. } = &crate::specification::CHARACTER_DATA[i] {
            n += 1;
        }
        i += 1;
    }
    n
}

macro_rules! h_regex_entry_alpha {
    ($name:ident, $check_fn:path, $r:ident, $alph:expr, $n:literal, $unw:literal) => {
        #[cfg_attr(kani, kani::proof)]
        #[cfg_attr(kani, kani::unwind($unw))]
        pub fn $name() {
            const ALPH: &[u8] = $alph;
            let check_fn = $check_fn;
            let idx: [u8; $n] = vk::any_bytes::<$n>();
            let len = vk::any_usize();
            vk::assume(len <= $n);
            let mut buf = [0u8; $n];
            let mut i = 0;
            while i < $n {
                vk::assume((idx[i] as usize) < ALPH.len());
                buf[i] = ALPH[idx[i] as usize];
                i += 1;
            }
            let s = &buf[..len];
            let want = $r(s);
            let got = check_fn(s);
            vk_cover!(got && len > 8, "validator accepts a string longer than 8 bytes");
            vk_check!(got == want, "validator and published regex disagree (reduced alphabet)");
        }
    };
}

// K2 lemma for C01: a pattern-typed value never contains a character that would need escaping
macro_rules! h_regex_noescape {
    ($name:ident, $f:path, $n:literal, $unw:literal) => {
        #[cfg_attr(kani, kani::proof)]
        #[cfg_attr(kani, kani::unwind($unw))]
        pub fn $name() {
            let buf: [u8; $n] = vk::any_bytes::<$n>();
            let len = vk::any_usize();
            vk::assume(len <= $n);
            let s = &buf[..len];
            let ok = $f(s);
            vk_cover!(ok, "validator accepts some string");
            if ok {
                let mut i = 0;
                while i < len {
                    let b = s[i];
                    vk_check!(
                        b != b'&' && b != b'<' && b != b'>' && b != b'"' && b != b'\'',
                        "pattern validator accepts a character that needs XML escaping (values of pattern types are stored and written unescaped)",
                    );
                    i += 1;
                }
            }
        }
    };
}

// ---------------------------------------------------------------------------------------------------------
// C18: name tables
// ---------------------------------------------------------------------------------------------------------

fn bytes_eq(a: &[u8], b: &[u8]) -> bool {
    if a.len() != b.len() {
        return false;
    }
    let mut i = 0;
    while i < a.len() {
        if a[i] != b[i] {
            return false;
        }
        i += 1;
    }
    true
}

// soundness: from_bytes(s) == Ok(x)  ==>  discriminant(x) < table size  &&  to_str(x) == s ; for all |s| <= N
macro_rules! h_name_sound {
    ($name:ident, $ty:ty, $count:expr, $n:literal, $unw:literal) => {
        #[cfg_attr(kani, kani::proof)]
        #[cfg_attr(kani, kani::unwind($unw))]
        pub fn $name() {
            let buf: [u8; $n] = vk::any_bytes::<$n>();
            let len = vk::any_usize();
            vk::assume(len <= $n);
            let s = &buf[..len];
            match <$ty>::from_bytes(s) {
                Ok(x) => {
                    vk_cover!(true, "some string is a table member");
                    vk_check!((x as usize) < $count, "from_bytes returned an item outside the table");
                    vk_check!(bytes_eq(x.to_str().as_bytes(), s), "from_bytes accepted a text that is not the item's text");
                }
                Err(_) => {
                    vk_cover!(true, "some string is rejected");
                }
            }
        }
    };
}

// completeness: for a symbolic item index i in [lo, hi): from_bytes(to_str(i)) == Ok(i)   (=> distinct items, distinct texts)
macro_rules! h_name_complete {
    ($name:ident, $ty:ty, $repr:ty, $lo:literal, $hi:literal, $unw:literal) => {
        #[cfg_attr(kani, kani::proof)]
        #[cfg_attr(kani, kani::unwind($unw))]
        pub fn $name() {
            let i: $repr = vk::any_u16() as $repr;
            vk::assume(i >= $lo && i < $hi);
            // SAFETY: i is a valid discriminant (table index == discriminant for all i < table size, checked by the sound-harness)
            let x: $ty = unsafe { core::mem::transmute::<$repr, $ty>(i) };
            let text = x.to_str();
            match <$ty>::from_bytes(text.as_bytes()) {
                Ok(y) => {
                    vk_cover!(true, "round trip reached");
                    vk_check!(y as $repr == i, "text -> item returns a different item");
                }
                Err(_) => vk_check!(false, "the text of an item is not accepted by from_bytes"),
            }
        }
    };
}

// AutosarVersion: value <-> bit <-> file name
#[cfg_attr(kani, kani::proof)]
pub fn h_version_from_val() {
    let v = vk::any_u32();
    match AutosarVersion::from_val(v) {
        Some(x) => {
            vk_cover!(true, "some value is a version");
            vk_check!(x as u32 == v, "from_val returned a version with a different value");
            vk_check!(v.count_ones() == 1 && v < (1 << 21), "from_val accepted a value that is not a single version bit");
        }
        None => {
            vk_check!(!(v.count_ones() == 1 && v < (1 << 21)), "from_val rejected a valid version bit");
        }
    }
}

#[cfg_attr(kani, kani::proof)]
#[cfg_attr(kani, kani::unwind(20))]
pub fn h_version_filename_roundtrip() {
    let bit = vk::any_u8();
    vk::assume(bit < 21);
    let x = AutosarVersion::from_val(1u32 << bit).unwrap();
    let name = x.filename();
    vk_check!(name.len() == 17, "file name length");
    match <AutosarVersion as core::str::FromStr>::from_str(name) {
        Ok(y) => vk_check!(y as u32 == 1u32 << bit, "filename -> version returns a different version"),
        Err(_) => vk_check!(false, "the file name of a version is not accepted by from_str"),
    }
    // masks: compatible(mask) <=> mask has the version's bit
    let mask = vk::any_u32();
    vk_check!(x.compatible(mask) == (mask & (1u32 << bit) != 0), "compatible() disagrees with the bit test");
}

macro_rules! h_version_from_str_sound {
    ($name:ident, $n:literal, $unw:literal) => {
        #[cfg_attr(kani, kani::proof)]
        #[cfg_attr(kani, kani::unwind($unw))]
        pub fn $name() {
            // 17 = length of every schema file name; prefix "AUTOSAR_" is fixed, suffix symbolic
            let buf: [u8; $n] = vk::any_bytes::<$n>();
            let len = vk::any_usize();
            vk::assume(len <= $n);
            let mut i = 0;
            while i < len {
                vk::assume(buf[i] < 0x80);
                i += 1;
            }
            // SAFETY: all bytes are assumed ASCII above
            let s = unsafe { core::str::from_utf8_unchecked(&buf[..len]) };
            if let Ok(x) = <AutosarVersion as core::str::FromStr>::from_str(s) {
                vk_cover!(true, "some text is a version file name");
                vk_check!(bytes_eq(x.filename().as_bytes(), s.as_bytes()), "from_str accepted a text that is not the version's file name");
            }
        }
    };
}

// all k-byte-substitution neighbours (positions and values symbolic) of all 21 file names, optionally truncated/extended by one byte
macro_rules! h_version_from_str_neigh {
    ($name:ident, $k:literal, $unw:literal) => {
        #[cfg_attr(kani, kani::proof)]
        #[cfg_attr(kani, kani::unwind($unw))]
        pub fn $name() {
            let bit = vk::any_u8();
            vk::assume(bit < 21);
            let y = AutosarVersion::from_val(1u32 << bit).unwrap();
            let base = y.filename().as_bytes();
            let mut buf = [0u8; 18];
            let mut i = 0;
            while i < base.len() && i < 18 {
                buf[i] = base[i];
                i += 1;
            }
            buf[17] = vk::any_u8();
            vk::assume(buf[17] < 0x80);
            let mut k = 0;
            while k < $k {
                let p = vk::any_u8();
                let b = vk::any_u8();
                vk::assume(p < 17 && b < 0x80);
                buf[p as usize] = b;
                k += 1;
            }
            let len = vk::any_usize();
            vk::assume(len >= 16 && len <= 18);
            // SAFETY: all bytes are assumed ASCII above
            let s = unsafe { core::str::from_utf8_unchecked(&buf[..len]) };
            match <AutosarVersion as core::str::FromStr>::from_str(s) {
                Ok(x) => {
                    vk_cover!(x as u32 != y as u32, "an edited name of one version is the name of another version");
                    vk_check!(bytes_eq(x.filename().as_bytes(), s.as_bytes()), "from_str accepted a text that is not the version's file name");
                }
                Err(_) => {
                    vk_cover!(true, "some neighbour is rejected");
                    vk_check!(!bytes_eq(y.filename().as_bytes(), s.as_bytes()), "from_str rejected the file name of a version");
                }
            }
        }
    };
}

// native replay body + translator-validation oracle for the name lookups decided by engine E2
#[cfg(not(kani))]
fn n_lookup_name(table: u8, s: &[u8]) -> Option<(usize, &'static str)> {
    match table {
        0 => AttributeName::from_bytes(s).ok().map(|x| (x as usize, x.to_str())),
        1 => EnumItem::from_bytes(s).ok().map(|x| (x as usize, x.to_str())),
        _ => ElementName::from_bytes(s).ok().map(|x| (x as usize, x.to_str())),
    }
}

#[cfg(not(kani))]
pub fn n_c18_names() {
    let table = vk::any_u8();
    let mode = vk::any_u8();
    if mode == 0 {
        // completeness: item index -> text -> item
        let i = vk::any_u16();
        let text: &'static str = match table {
            0 => { assert!(i < 101, "VK_REPLAY_SHAPE"); unsafe { core::mem::transmute::<u16, AttributeName>(i) }.to_str() }
            1 => { assert!(i < 2810, "VK_REPLAY_SHAPE"); unsafe { core::mem::transmute::<u16, EnumItem>(i) }.to_str() }
            _ => { assert!(i < 6459, "VK_REPLAY_SHAPE"); unsafe { core::mem::transmute::<u16, ElementName>(i) }.to_str() }
        };
        let r = n_lookup_name(table, text.as_bytes());
        vk_check!(r.is_some(), "the text of an item is not accepted by from_bytes");
        vk_check!(r.unwrap().0 == i as usize, "text -> item returns a different item");
    } else {
        let len = vk::any_usize();
        let mut v = std::vec::Vec::new();
        let mut k = 0;
        while k < len {
            v.push(vk::any_u8());
            k += 1;
        }
        if let Some((_, text)) = n_lookup_name(table, &v) {
            vk_check!(bytes_eq(text.as_bytes(), &v), "from_bytes accepted a text that is not the item's text");
        }
    }
}

#[cfg(all(test, not(kani)))]
#[test]
fn verif_oracle_names() {
    let Ok(inp) = std::env::var("VERIF_ORACLE_IN") else { return; };
    let out_path = std::env::var("VERIF_ORACLE_OUT").unwrap();
    let text = std::fs::read_to_string(inp).unwrap();
    let mut out = std::string::String::new();
    let mut any = false;
    for line in text.lines() {
        let f: std::vec::Vec<&str> = line.split_whitespace().collect();
        if f.len() < 3 || f[0] != "name" { continue; }
        any = true;
        let table: u8 = f[1].parse().unwrap();
        let b: std::vec::Vec<u8> = if f[2] == "-" { std::vec::Vec::new() } else { (0..f[2].len() / 2).map(|i| u8::from_str_radix(&f[2][2 * i..2 * i + 2], 16).unwrap()).collect() };
        match n_lookup_name(table, &b) {
            Some((i, _)) => out.push_str(&std::format!("Ok {}\n", i)),
            None => out.push_str("Err\n"),
        }
    }
    if any {
        std::fs::write(out_path, out).unwrap();
    }
}
