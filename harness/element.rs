// In-crate harnesses (included by the guarded hook at the end of the source file of the same name).
use super::*;

include!(concat!(env!("AUTOSAR_DATA_VERIF_DIR"), "/harness/vk.rs"));

// native replay body for the element ordering decided by engine E2: three packages that differ only in their name
#[cfg(not(kani))]
pub fn n_c14_element_order() {
    use std::cmp::Ordering::*;
    let mut names = std::vec::Vec::new();
    for _ in 0..3 {
        let len = vk::any_usize();
        let mut v = std::vec::Vec::new();
        for _ in 0..len {
            v.push(vk::any_u8());
        }
        names.push(String::from_utf8(v).expect("VK_REPLAY_SHAPE"));
    }
    // three separate models so that equal names are possible
    let mut elems = std::vec::Vec::new();
    let mut keep = std::vec::Vec::new();
    for n in &names {
        let model = crate::AutosarModel::new();
        model.create_file("f", crate::AutosarVersion::LATEST).expect("VK_REPLAY_SHAPE");
        let pkgs = model.root_element().create_sub_element(crate::ElementName::ArPackages).expect("VK_REPLAY_SHAPE");
        let e = pkgs.create_named_sub_element(crate::ElementName::ArPackage, n).expect("VK_REPLAY_SHAPE");
        elems.push(e);
        keep.push(model);
    }
    let a = &elems[0];
    vk_check!(a.cmp(a) == Equal, "cmp(a, a) != Equal");
    for (x, y, z) in [(0, 1, 2), (0, 2, 1), (1, 0, 2), (1, 2, 0), (2, 0, 1), (2, 1, 0)] {
        let (xy, yx, yz, xz) = (elems[x].cmp(&elems[y]), elems[y].cmp(&elems[x]), elems[y].cmp(&elems[z]), elems[x].cmp(&elems[z]));
        vk_check!(yx == xy.reverse(), "element comparison is not antisymmetric");
        if xy != Greater && yz != Greater {
            vk_check!(xz != Greater, "element comparison is not transitive");
            if xy == Less || yz == Less {
                vk_check!(xz == Less, "element comparison is not transitive");
            }
        }
        vk_check!((xy == Equal) == (names[x] == names[y]), "cmp == Equal is not the same as equal item names");
    }
}

// ---------------------------------------------------------------------------------------------------------
// native replay body for the editing kernel decided by engine E2 (C07 insertion range / C12 no panic):
// the abstract situation (k existing sub-elements drawn from A..D of the content model  top[A, nested[B, C], D], group modes,
// multiplicities, availability in the version) is looked up in the REAL specification: the first (element type, version,
// assignment of A..D to sub-elements of that type) with the same pairwise order, group modes, multiplicities and availability
// is built as an ElementRaw and the real functions are called on it.
// ---------------------------------------------------------------------------------------------------------
#[cfg(not(kani))]
pub fn n_edit_insert() {
    use autosar_data_specification::{ContentMode, ElementMultiplicity, ElementType};
    const NN: usize = 5; // abstract names A B C E D
    let total = vk::any_u8() == 1;
    let k = vk::any_u8() as usize;
    assert!(k <= 6, "VK_REPLAY_SHAPE");
    let mut seq = std::vec::Vec::new();
    for _ in 0..k { let n = vk::any_u8() as usize; assert!(n < NN, "VK_REPLAY_SHAPE"); seq.push(n); }
    let new = vk::any_u8() as usize;
    assert!(new < NN, "VK_REPLAY_SHAPE");
    let position = vk::any_u64() as usize;
    let cm = |i: u8| match i { 0 => ContentMode::Sequence, 1 => ContentMode::Choice, _ => ContentMode::Bag };
    let modes = [cm(vk::any_u8()), cm(vk::any_u8()), cm(vk::any_u8())];
    let mut mult = std::vec::Vec::new();
    for _ in 0..NN { mult.push(match vk::any_u8() { 0 => ElementMultiplicity::ZeroOrOne, 1 => ElementMultiplicity::One, _ => ElementMultiplicity::Any }); }
    let mut avail = std::vec::Vec::new();
    for _ in 0..NN { avail.push(vk::any_u8() == 1); }
    let a_late = vk::any_u8() == 1;
    let abs_idx: [std::vec::Vec<usize>; NN] = [if a_late { std::vec![3] } else { std::vec![0] }, std::vec![1, 0], std::vec![1, 1, 0], std::vec![1, 1, 1], std::vec![2]];
    fn level(a: &[usize], b: &[usize]) -> usize {
        let mut l = 0;
        while l + 1 < a.len() && l + 1 < b.len() && a[l] == b[l] { l += 1; }
        l
    }
    let mut used: std::vec::Vec<usize> = seq.clone();
    used.push(new);
    used.sort();
    used.dedup();

    // reference reading of "conforms to the content model" on the real specification answers
    fn valid(t: ElementType, items: &[(crate::ElementName, std::vec::Vec<usize>)], version: u32) -> bool {
        if t.content_mode() == ContentMode::Bag || t.content_mode() == ContentMode::Mixed {
            return items.iter().all(|(n, _)| t.find_sub_element(*n, version).is_some());
        }
        for i in 0..items.len() {
            if t.find_sub_element(items[i].0, version).is_none() { return false; }
            for j in i + 1..items.len() {
                let (a, b) = (&items[i].1, &items[j].1);
                let m = t.find_common_group(a, b).content_mode();
                if m == ContentMode::Sequence && a > b { return false; }
                if a != b { if m == ContentMode::Choice { return false; } }
                else if m != ContentMode::Bag && m != ContentMode::Mixed && t.get_sub_element_multiplicity(a) != Some(ElementMultiplicity::Any) { return false; }
            }
        }
        true
    }
    // (name, type, index vector in the version (all-version lookup when the name is not available), available, differs from the all-version lookup)
    type Sub = (crate::ElementName, ElementType, std::vec::Vec<usize>, bool, bool);
    // stage 0: the abstract situation exactly; stage 1: multiplicities free; stage 2: multiplicities and group modes free
    // (order relations, nesting levels, availability and the moved-between-versions flag are always matched)
    struct Abs<'a> { used: &'a [usize], abs_idx: &'a [std::vec::Vec<usize>; NN], modes: [ContentMode; 3], mult: &'a [ElementMultiplicity], avail: &'a [bool], a_late: bool, stage: usize }
    fn fits(t: ElementType, subs: &[Sub], ab: &Abs, assign: &[usize], cand: usize) -> bool {
        let me = ab.used[assign.len()];
        let (_name, _st, idx, available, moved) = &subs[cand];
        if *available != ab.avail[me] { return false; }
        if *moved != (me == 0 && ab.a_late && ab.avail[0]) { return false; }
        if ab.stage < 1 && t.get_sub_element_multiplicity(idx) != Some(ab.mult[me]) { return false; }
        if ab.stage < 2 && t.find_common_group(idx, idx).content_mode() != ab.modes[ab.abs_idx[me].len() - 1] { return false; }
        if ab.stage >= 2 && (idx.len() > 1) != (ab.abs_idx[me].len() > 1) { return false; }
        for (pos, other) in assign.iter().enumerate() {
            let o = ab.used[pos];
            let oidx = &subs[*other].2;
            if *other == cand { return false; }
            // the order of two entries only matters inside a sequence group (and equal entries must stay equal)
            let abs_mode = ab.modes[level(&ab.abs_idx[o], &ab.abs_idx[me])];
            if abs_mode == ContentMode::Sequence || ab.stage >= 2 {
                if ab.abs_idx[o].cmp(&ab.abs_idx[me]) != oidx.cmp(idx) { return false; }
            } else if (ab.abs_idx[o] == ab.abs_idx[me]) != (oidx == idx) { return false; }
            if ab.stage < 2 && t.find_common_group(oidx, idx).content_mode() != ab.modes[level(&ab.abs_idx[o], &ab.abs_idx[me])] { return false; }
            if ab.stage >= 2 && (level(oidx, idx) > 0) != (level(&ab.abs_idx[o], &ab.abs_idx[me]) > 0) { return false; }
        }
        true
    }
    fn search(t: ElementType, subs: &[Sub], ab: &Abs, assign: &mut std::vec::Vec<usize>) -> bool {
        if assign.len() == ab.used.len() { return true; }
        for cand in 0..subs.len() {
            if fits(t, subs, ab, assign, cand) {
                assign.push(cand);
                if search(t, subs, ab, assign) { return true; }
                assign.pop();
            }
        }
        false
    }

    let all_types = crate::parser::verif_harness::n_all_types_pub();
    let mut instances = 0usize;
    for stage in 0..3usize {
    let mut tried = 0usize;
    for t in all_types.iter().copied() {
        if tried >= 40 { break; }
        if stage < 2 && t.content_mode() != modes[0] { continue; }
        if stage >= 2 && (t.content_mode() == ContentMode::Bag || t.content_mode() == ContentMode::Mixed) != (modes[0] == ContentMode::Bag) { continue; }
        let mut names: std::vec::Vec<(crate::ElementName, ElementType, std::vec::Vec<usize>)> = std::vec::Vec::new();
        for (name, _st, _, _) in t.sub_element_spec_iter() {
            if let Some((st, idx)) = t.find_sub_element(name, u32::MAX) {
                if !names.iter().any(|(n, _, _)| *n == name) { names.push((name, st, idx)); }
            }
        }
        if names.len() < used.len() || names.len() > 60 { continue; }
        for vbit in 0..21u32 {
            let Some(version) = crate::AutosarVersion::from_val(1 << vbit) else { continue; };
            let ver = version as u32;
            let subs: std::vec::Vec<Sub> = names.iter().filter(|(_, st, _)| !st.is_named_in_version(version)).map(|(name, st, idx_max)| {
                match t.find_sub_element(*name, ver) {
                    Some((st_v, idx_v)) => { let moved = idx_v != *idx_max; (*name, st_v, idx_v, true, moved) }
                    None => (*name, *st, idx_max.clone(), false, false),
                }
            }).collect();
            let ab = Abs { used: &used, abs_idx: &abs_idx, modes, mult: &mult, avail: &avail, a_late, stage };
            let mut assign: std::vec::Vec<usize> = std::vec::Vec::new();
            if !search(t, &subs, &ab, &mut assign) { continue; }
            let real = |abs: usize| &subs[assign[used.iter().position(|u| *u == abs).unwrap()]];
            // build the parent with its existing sub-elements
            let mut content = SmallVec::new();
            let mut items = std::vec::Vec::new();
            for n in &seq {
                let (name, st, idx, _, _) = real(*n);
                let child = ElementRaw { parent: ElementOrModel::None, elemname: *name, elemtype: *st, content: SmallVec::new(), attributes: SmallVec::new(), file_membership: HashSet::with_capacity(0), comment: None }.wrap();
                content.push(ElementContent::Element(child));
                items.push((*name, idx.clone()));
            }
            let parent = ElementRaw { parent: ElementOrModel::None, elemname: crate::ElementName::Autosar, elemtype: t, content, attributes: SmallVec::new(), file_membership: HashSet::with_capacity(0), comment: None }.wrap();
            let (new_name, _, new_idx, _, _) = real(new);
            let before: std::vec::Vec<Element> = parent.0.read().content.iter().filter_map(|c| if let ElementContent::Element(e) = c { Some(e.clone()) } else { None }).collect();
            if !total && !valid(t, &items, ver) { continue; }
            let range = parent.0.read().calc_element_insert_range(*new_name, version);
            let weak = parent.downgrade();
            let created = parent.0.write().create_sub_element_at(weak, *new_name, position, version);
            let after: std::vec::Vec<Element> = parent.0.read().content.iter().filter_map(|c| if let ElementContent::Element(e) = c { Some(e.clone()) } else { None }).collect();
            if created.is_err() {
                vk_check!(after == before, "a failed create_sub_element_at changed the content");
            }
            tried += 1;
            instances += 1;
            if total { break; }
            let okv: std::vec::Vec<bool> = (0..=k).map(|p| { let mut it = items.clone(); it.insert(p, (*new_name, new_idx.clone())); valid(t, &it, ver) }).collect();
            match &range {
                Ok((s, e)) => {
                    for p in 0..=k {
                        vk_check!((*s <= p && p <= *e) == okv[p], "a position is inside the reported insertion range but breaks the content model, or is outside and keeps it");
                    }
                    vk_check!(*e <= k, "the reported range ends beyond the content");
                    vk_check!((*s <= position && position <= *e) == created.is_ok(), "create_sub_element_at succeeds outside the reported range or fails inside it");
                }
                Err(_) => {
                    vk_check!(okv.iter().all(|v| !*v), "no insertion range is reported although a position keeps the content model");
                    vk_check!(created.is_err(), "create_sub_element_at succeeds although no insertion range is reported");
                }
            }
            if let Ok(el) = &created {
                let mut want = before.clone();
                if position <= want.len() { want.insert(position, el.clone()); }
                vk_check!(after == want && el.element_name() == *new_name, "create_sub_element_at did not insert exactly one new element of the requested name at the requested position");
            }
            // this instance holds: go on with an instance in the next element type
            break;
        }
    }
    }
    if instances == 0 {
        panic!("VK_REPLAY_SHAPE: the real specification has no element type with this content model situation");
    }
}

// ---------------------------------------------------------------------------------------------------------
// native replay body for the document-level C17 harness of engine E2: the abstract situation (an optional enum-typed element;
// is the element / is its value available in the target version; upgrade or downgrade) is looked up in the REAL specification,
// the model is built through the public API in the source version and the public functions are compared with a strict load of
// the serialized text relabelled with the target version.
// ---------------------------------------------------------------------------------------------------------
#[cfg(not(kani))]
pub fn n_c17_doc() {
    use autosar_data_specification::{CharacterDataSpec, ElementType};
    let _doc = vk::any_u8();
    let has_cat = vk::any_u8() == 1;
    let elem_in_target = vk::any_u8() == 1;
    let val_in_target = vk::any_u8() == 1;
    let upgrade = vk::any_u8() == 1;
    let versions: std::vec::Vec<crate::AutosarVersion> = (0..21u32).filter_map(|b| crate::AutosarVersion::from_val(1 << b)).collect();

    // the property on one built model
    let check = |model: &crate::AutosarModel, file: &crate::ArxmlFile, fv: crate::AutosarVersion, tv: crate::AutosarVersion| {
        let text = file.serialize().expect("VK_REPLAY_SHAPE");
        let relabelled = text.replacen(fv.filename(), tv.filename(), 1);
        let reload_ok = crate::AutosarModel::new().load_buffer(relabelled.as_bytes(), "t.arxml", true).is_ok();
        let (errs, mask) = file.check_version_compatibility(tv);
        vk_check!(errs.is_empty() == reload_ok, "the compatibility check lists no incompatibility although the content relabelled with the target version fails strict validation (or the other way round)");
        vk_check!(errs.is_empty() == (mask & (tv as u32) != 0), "the returned version mask contains the target version although incompatibilities are listed (or the other way round)");
        let r = file.set_version(tv);
        vk_check!(r.is_ok() == errs.is_empty(), "set_version succeeds although the compatibility check lists incompatibilities (or fails although it lists none)");
        if r.is_ok() {
            vk_check!(file.version() == tv, "set_version succeeded but the file does not carry the new version");
            let text2 = file.serialize().expect("VK_REPLAY_SHAPE");
            vk_check!(crate::AutosarModel::new().load_buffer(text2.as_bytes(), "u.arxml", true).is_ok(), "set_version succeeded but the content does not load strictly as the new version");
        } else {
            vk_check!(file.version() == fv, "a failed set_version changed the version of the file");
        }
        let _ = model;
    };

    if !has_cat {
        let (fv, tv) = if upgrade { (versions[0], versions[20]) } else { (versions[20], versions[0]) };
        let model = crate::AutosarModel::new();
        let file = model.create_file("f.arxml", fv).expect("VK_REPLAY_SHAPE");
        let pkgs = model.root_element().create_sub_element(crate::ElementName::ArPackages).expect("VK_REPLAY_SHAPE");
        pkgs.create_named_sub_element(crate::ElementName::ArPackage, "p").expect("VK_REPLAY_SHAPE");
        check(&model, &file, fv, tv);
        return;
    }
    // search: an ARElement kind K under AR-PACKAGE/ELEMENTS with an enum-typed direct sub-element E
    let all = 0x1f_ffffu32;
    let (pkgs_t, _) = ElementType::ROOT.find_sub_element(crate::ElementName::ArPackages, u32::MAX).expect("VK_REPLAY_SHAPE");
    let (pkg_t, _) = pkgs_t.find_sub_element(crate::ElementName::ArPackage, u32::MAX).expect("VK_REPLAY_SHAPE");
    let (elements_t, _) = pkg_t.find_sub_element(crate::ElementName::Elements, u32::MAX).expect("VK_REPLAY_SHAPE");
    // the requested direction first; the property does not depend on it, so the other direction serves when the real specification has no such instance
    for upgrade in [upgrade, !upgrade] {
    for (kname, kt, kmask, _) in elements_t.sub_element_spec_iter() {
        for (ename, et, emask, _) in kt.sub_element_spec_iter() {
            let Some(CharacterDataSpec::Enum { items }) = et.chardata_spec() else { continue; };
            for (item, imask) in items.iter() {
                for fv in &versions {
                    for tv in &versions {
                        let (fb, tb) = (*fv as u32, *tv as u32);
                        if fb == tb || (tb > fb) != upgrade { continue; }
                        // everything exists in the source version, the container kind also in the target version
                        if kmask & fb == 0 || emask & fb == 0 || imask & fb == 0 || kmask & tb == 0 { continue; }
                        if (emask & tb != 0) != elem_in_target { continue; }
                        if elem_in_target && (imask & tb != 0) != val_in_target { continue; }
                        let model = crate::AutosarModel::new();
                        let Ok(file) = model.create_file("f.arxml", *fv) else { continue; };
                        let Ok(pkgs) = model.root_element().create_sub_element(crate::ElementName::ArPackages) else { continue; };
                        let Ok(pkg) = pkgs.create_named_sub_element(crate::ElementName::ArPackage, "p") else { continue; };
                        let Ok(elements) = pkg.create_sub_element(crate::ElementName::Elements) else { continue; };
                        let Ok(k) = elements.create_named_sub_element(kname, "k") else { continue; };
                        let Ok(e) = k.create_sub_element(ename) else { continue; };
                        if e.set_character_data(*item).is_err() { continue; }
                        // the built file must be valid in its own version, otherwise it is not an instance
                        let text = file.serialize().expect("VK_REPLAY_SHAPE");
                        if crate::AutosarModel::new().load_buffer(text.as_bytes(), "s.arxml", true).is_err() { continue; }
                        let _ = all;
                        check(&model, &file, *fv, *tv);
                        return;
                    }
                }
            }
        }
    }
    }
    panic!("VK_REPLAY_SHAPE: the real specification has no instance of this situation");
}

// ---------------------------------------------------------------------------------------------------------
// native replay body for the sort harness of engine E2 (C14): SDGS > SDG* > SD* with one-letter values, built through the
// public API in the given order and in the reversed order
// ---------------------------------------------------------------------------------------------------------
#[cfg(not(kani))]
pub fn n_c14_sort() {
    use std::cmp::Ordering::*;
    let nx = vk::any_u8() as usize;
    assert!(nx <= 4, "VK_REPLAY_SHAPE");
    let mut rows: std::vec::Vec<std::vec::Vec<u8>> = std::vec::Vec::new();
    for _ in 0..nx {
        let ny = vk::any_u8() as usize;
        assert!(ny <= 4, "VK_REPLAY_SHAPE");
        rows.push((0..ny).map(|_| vk::any_u8()).collect());
    }
    let build = |rev: bool| {
        let model = crate::AutosarModel::new();
        model.create_file("f", crate::AutosarVersion::LATEST).expect("VK_REPLAY_SHAPE");
        let pkgs = model.root_element().create_sub_element(crate::ElementName::ArPackages).expect("VK_REPLAY_SHAPE");
        let pkg = pkgs.create_named_sub_element(crate::ElementName::ArPackage, "p").expect("VK_REPLAY_SHAPE");
        let sdgs = pkg.create_sub_element(crate::ElementName::AdminData).and_then(|a| a.create_sub_element(crate::ElementName::Sdgs)).expect("VK_REPLAY_SHAPE");
        let xs: std::vec::Vec<&std::vec::Vec<u8>> = if rev { rows.iter().rev().collect() } else { rows.iter().collect() };
        for row in xs {
            let sdg = sdgs.create_sub_element(crate::ElementName::Sdg).expect("VK_REPLAY_SHAPE");
            let ys: std::vec::Vec<u8> = if rev { row.iter().rev().copied().collect() } else { row.clone() };
            for y in ys {
                let sd = sdg.create_sub_element(crate::ElementName::Sd).expect("VK_REPLAY_SHAPE");
                sd.set_character_data(String::from_utf8(std::vec![y]).expect("VK_REPLAY_SHAPE")).expect("VK_REPLAY_SHAPE");
            }
        }
        (model, sdgs)
    };
    let shape = |sdgs: &Element| -> std::vec::Vec<std::vec::Vec<String>> {
        sdgs.sub_elements().map(|sdg| sdg.sub_elements().map(|sd| sd.character_data().map(|c| c.to_string()).unwrap_or_default()).collect()).collect()
    };
    let (_m1, p1) = build(false);
    p1.sort();
    let (_m2, p2) = build(true);
    p2.sort();
    let xs: std::vec::Vec<Element> = p1.sub_elements().collect();
    for w in xs.windows(2) {
        vk_check!(w[0].cmp(&w[1]) != Greater, "after sort() a sibling compares Greater than its successor (real Element::cmp on the final state)");
    }
    let before = shape(&p1);
    p1.sort();
    vk_check!(shape(&p1) == before, "sorting a sorted element again changes it (sort is not idempotent)");
    vk_check!(shape(&p2) == before, "the sorted result depends on the order the siblings had before");
    for ys in &before {
        vk_check!(ys.windows(2).all(|w| w[0] <= w[1]), "the values inside a sorted child are not in order");
    }
    let mut lens: std::vec::Vec<usize> = before.iter().map(|y| y.len()).collect();
    let mut want: std::vec::Vec<usize> = rows.iter().map(|y| y.len()).collect();
    lens.sort();
    want.sort();
    vk_check!(lens == want, "sort() lost or duplicated content");
}

// ---------------------------------------------------------------------------------------------------------
// native replay bodies for the index harnesses of engine E2 (C04 / C05 / C06): the same small model through the public API:
// AR-PACKAGES > [P1 (n1) > AR-PACKAGES > [Q (q), Q2 (q2)], P2 (n2) > ELEMENTS > SYSTEM s > FIBEX-ELEMENTS > four references]
// values: n1, n2, q, m, ra, rb, rc, rd, q2 (length + bytes each), aspect (4 | 5 | 6), which (0: P1, 1: P2, 2: the first reference)
// ---------------------------------------------------------------------------------------------------------
#[cfg(not(kani))]
struct NIndexModel { model: crate::AutosarModel, strs: std::vec::Vec<String>, pkgs: Element, p1: Element, qe: Element, q2e: Element, p2: Element, fibex: Element, conds: std::vec::Vec<Element>, refs: std::vec::Vec<Element>, aspect: u8, which: u8 }

#[cfg(not(kani))]
fn n_index_model() -> NIndexModel {
    let mut strs: std::vec::Vec<String> = std::vec::Vec::new();
    for _ in 0..9 {
        let n = vk::any_u8() as usize;
        assert!(n <= 8, "VK_REPLAY_SHAPE");
        let b: std::vec::Vec<u8> = (0..n).map(|_| vk::any_u8()).collect();
        strs.push(String::from_utf8(b).expect("VK_REPLAY_SHAPE"));
    }
    let aspect = vk::any_u8();
    let which = vk::any_u8();
    let model = crate::AutosarModel::new();
    model.create_file("f", crate::AutosarVersion::LATEST).expect("VK_REPLAY_SHAPE");
    let pkgs = model.root_element().create_sub_element(crate::ElementName::ArPackages).expect("VK_REPLAY_SHAPE");
    let p1 = pkgs.create_named_sub_element(crate::ElementName::ArPackage, &strs[0]).expect("VK_REPLAY_SHAPE");
    let inner = p1.create_sub_element(crate::ElementName::ArPackages).expect("VK_REPLAY_SHAPE");
    let qe = inner.create_named_sub_element(crate::ElementName::ArPackage, &strs[2]).expect("VK_REPLAY_SHAPE");
    let q2e = inner.create_named_sub_element(crate::ElementName::ArPackage, &strs[8]).expect("VK_REPLAY_SHAPE");
    let p2 = pkgs.create_named_sub_element(crate::ElementName::ArPackage, &strs[1]).expect("VK_REPLAY_SHAPE");
    let fibex = p2.create_sub_element(crate::ElementName::Elements)
        .and_then(|e| e.create_named_sub_element(crate::ElementName::System, "s"))
        .and_then(|s| s.create_sub_element(crate::ElementName::FibexElements)).expect("VK_REPLAY_SHAPE");
    let mut refs = std::vec::Vec::new();
    let mut conds = std::vec::Vec::new();
    for text in [&strs[4], &strs[5], &strs[6], &strs[7]] {
        let c = fibex.create_sub_element(crate::ElementName::FibexElementRefConditional).expect("VK_REPLAY_SHAPE");
        let r = c.create_sub_element(crate::ElementName::FibexElementRef).expect("VK_REPLAY_SHAPE");
        r.set_character_data(text.clone()).expect("VK_REPLAY_SHAPE");
        refs.push(r);
        conds.push(c);
    }
    NIndexModel { model, strs, pkgs, p1, qe, q2e, p2, fibex, conds, refs, aspect, which }
}

#[cfg(not(kani))]
pub fn n_rename_step() {
    let x = n_index_model();
    let (model, strs, p1, qe, q2e, p2, refs, aspect) = (&x.model, &x.strs, &x.p1, &x.qe, &x.q2e, &x.p2, &x.refs, x.aspect);
    let (n1, n2, q, m, q2) = (&strs[0], &strs[1], &strs[2], &strs[3], &strs[8]);
    let texts = [&strs[4], &strs[5], &strs[6], &strs[7]];
    let old1 = format!("/{n1}");
    let dup = m == n2;
    let res = p1.set_item_name(m);
    let text_of = |e: &Element| e.character_data().and_then(|c| c.string_value()).unwrap_or_default();
    let listed_once = |r: &Element| model.get_references_to(&text_of(r)).iter().filter(|w| w.upgrade().as_ref() == Some(r)).count() == 1;
    if res.is_err() {
        if aspect == 4 {
            vk_check!(dup, "a rename to a free name is rejected");
            vk_check!(p1.item_name().as_deref() == Some(n1.as_str()), "a rejected rename changed the name");
            vk_check!(model.identifiable_elements().count() == 5, "a rejected rename changed the path index");
        }
        if aspect == 6 { vk_check!(refs.iter().zip(texts).all(|(r, t)| &text_of(r) == t), "a rejected rename changed a reference"); }
        if aspect == 5 { vk_check!(refs.iter().all(|r| listed_once(r)), "a rejected rename changed the referrer lists"); }
        return;
    }
    let new1 = format!("/{m}");
    if aspect == 4 {
        vk_check!(!dup, "a rename to the name of a sibling is accepted: two elements with one path");
        vk_check!(p1.item_name().as_deref() == Some(m.as_str()), "the element does not carry the new name");
        // the index: P1, Q, Q2, P2 and the SYSTEM element that carries the references
        vk_check!(model.identifiable_elements().count() == 5, "the path index has lost or gained entries");
        for (path, e) in [(new1.clone(), p1), (format!("{new1}/{q}"), qe), (format!("{new1}/{q2}"), q2e), (format!("/{n2}"), p2)] {
            vk_check!(model.get_element_by_path(&path).as_ref() == Some(e), "an identifiable element is not found under its current path");
        }
    }
    for (r, old) in refs.iter().zip(texts) {
        if aspect == 6 {
            let below = old == &old1 || old.strip_prefix(old1.as_str()).is_some_and(|s| s.starts_with('/'));
            let exists = old == &old1 || *old == format!("{old1}/{q}") || *old == format!("{old1}/{q2}");
            let follow = if below { format!("{new1}{}", &old[old1.len()..]) } else { String::new() };
            let now = text_of(r);
            let ok = if exists { now == follow } else if below { now == follow || &now == old } else { &now == old };
            vk_check!(ok, "a reference to the renamed element (or to an element below it) was not rewritten, or an unrelated reference was changed");
        }
        if aspect == 5 { vk_check!(listed_once(r), "a reference is not listed (exactly once) under its current text in the referrer lists"); }
    }
    if aspect == 5 {
        let mut keys: std::vec::Vec<String> = refs.iter().map(|r| text_of(r)).collect();
        keys.sort();
        keys.dedup();
        let total: usize = keys.iter().map(|k| model.get_references_to(k).len()).sum();
        vk_check!(total == 4, "the referrer lists have lost or gained entries");
    }
}

#[cfg(not(kani))]
pub fn n_remove_step() {
    let x = n_index_model();
    let (model, strs, aspect, which) = (&x.model, &x.strs, x.aspect, x.which);
    let (n1, n2, q, q2) = (&strs[0], &strs[1], &strs[2], &strs[8]);
    let texts = [&strs[4], &strs[5], &strs[6], &strs[7]];
    // which = 2 removes the first reference element itself (a leaf) from its FIBEX-ELEMENT-REF-CONDITIONAL
    let (parent, gone) = match which { 0 => (x.pkgs.clone(), x.p1.clone()), 1 => (x.pkgs.clone(), x.p2.clone()), _ => (x.conds[0].clone(), x.refs[0].clone()) };
    let n_before = parent.sub_elements().count();
    let res = parent.remove_sub_element(gone.clone());
    vk_check!(res.is_ok(), "removing the element is rejected");
    if aspect == 4 {
        vk_check!(parent.sub_elements().count() == n_before - 1 && parent.sub_elements().all(|e| e != gone), "the removed element is still listed by its parent (or a sibling was removed)");
        vk_check!(gone.parent().is_err() && gone.content().count() == 0, "the removed element keeps a parent or content");
        let all = [(format!("/{n1}"), &x.p1), (format!("/{n1}/{q}"), &x.qe), (format!("/{n1}/{q2}"), &x.q2e), (format!("/{n2}"), &x.p2)];
        let kept: &[(String, &Element)] = match which { 0 => &all[3..], 1 => &all[..3], _ => &all[..] };
        // + the SYSTEM element below P2
        let want = kept.len() + if which == 1 { 0 } else { 1 };
        vk_check!(model.identifiable_elements().count() == want, "the path index keeps entries of removed elements or lost entries of other elements");
        for (path, e) in kept {
            vk_check!(model.get_element_by_path(path).as_ref() == Some(*e), "an identifiable element that is still part of the model is not found under its path");
        }
    } else {
        let kept_refs: std::vec::Vec<(&Element, &String)> = match which { 0 => x.refs.iter().zip(texts).collect(), 1 => std::vec::Vec::new(), _ => x.refs.iter().zip(texts).skip(1).collect() };
        let mut keys: std::vec::Vec<&String> = texts.to_vec();
        keys.sort();
        keys.dedup();
        let total: usize = keys.iter().map(|k| model.get_references_to(k).len()).sum();
        vk_check!(total == kept_refs.len(), "the referrer lists keep references that were removed, or lost references that are still part of the model");
        for (r, t) in kept_refs {
            vk_check!(model.get_references_to(t).iter().filter(|w| w.upgrade().as_ref() == Some(r)).count() == 1, "a reference that is still part of the model is not listed (exactly once) under its text");
        }
    }
    let _ = &x.fibex;
}
