// In-crate harnesses (included by the guarded hook at the end of the source file of the same name).
use super::*;

include!(concat!(env!("AUTOSAR_DATA_VERIF_DIR"), "/harness/vk.rs"));

// native replay body for the element ordering decided by engine E2: three packages that differ only in their name
#[cfg(not(kani))]
pub fn n_c14_element_order() {
    use std::cmp::Ordering::*;
    let mut names = std::vec::Vec::new();
    for _ in 0..3 {
        let len = vk::any_usize();
        let mut v = std::vec::Vec::new();
        for _ in 0..len {
            v.push(vk::any_u8());
        }
        names.push(String::from_utf8(v).expect("VK_REPLAY_SHAPE"));
    }
    // three separate models so that equal names are possible
    let mut elems = std::vec::Vec::new();
    let mut keep = std::vec::Vec::new();
    for n in &names {
        let model = crate::AutosarModel::new();
        model.create_file("f", crate::AutosarVersion::LATEST).expect("VK_REPLAY_SHAPE");
        let pkgs = model.root_element().create_sub_element(crate::ElementName::ArPackages).expect("VK_REPLAY_SHAPE");
        let e = pkgs.create_named_sub_element(crate::ElementName::ArPackage, n).expect("VK_REPLAY_SHAPE");
        elems.push(e);
        keep.push(model);
    }
    let a = &elems[0];
    vk_check!(a.cmp(a) == Equal, "cmp(a, a) != Equal");
    for (x, y, z) in [(0, 1, 2), (0, 2, 1), (1, 0, 2), (1, 2, 0), (2, 0, 1), (2, 1, 0)] {
        let (xy, yx, yz, xz) = (elems[x].cmp(&elems[y]), elems[y].cmp(&elems[x]), elems[y].cmp(&elems[z]), elems[x].cmp(&elems[z]));
        vk_check!(yx == xy.reverse(), "element comparison is not antisymmetric");
        if xy != Greater && yz != Greater {
            vk_check!(xz != Greater, "element comparison is not transitive");
            if xy == Less || yz == Less {
                vk_check!(xz == Less, "element comparison is not transitive");
            }
        }
        vk_check!((xy == Equal) == (names[x] == names[y]), "cmp == Equal is not the same as equal item names");
    }
}
