// In-crate harnesses for autosar-data/src/lexer.rs (included by the guarded hook at the end of that file).
// Every harness is one inductive step of the tokenizer from an ARBITRARY VALID state (representation invariant `inv`),
// with exactly the precondition `next()` establishes before it calls the step.
use super::*;

include!(concat!(env!("AUTOSAR_DATA_VERIF_DIR"), "/harness/vk.rs"));

fn count_nl(b: &[u8], upto: usize) -> usize {
    let mut n = 0;
    let mut i = 0;
    while i < upto {
        if b[i] == b'\n' {
            n += 1;
        }
        i += 1;
    }
    n
}

fn is_ws(b: u8) -> bool {
    // XML white space as the tokenizer reads it (u8::is_ascii_whitespace): space, \t, \n, \x0c, \r
    b == b' ' || b == b'\t' || b == b'\n' || b == 0x0c || b == b'\r'
}

/// representation invariant of the tokenizer state
fn inv(lx: &ArxmlLexer) -> bool {
    if lx.bufpos > lx.buffer.len() {
        return false;
    }
    if lx.line < 1 || lx.line > 1 + count_nl(lx.buffer, lx.bufpos) {
        return false;
    }
    if let Some((s, e)) = lx.deferred_end {
        if !(s <= e && e <= lx.bufpos) {
            return false;
        }
    }
    true
}

/// an arbitrary tokenizer state over `buf` that satisfies the invariant
fn any_lexer<'a>(buf: &'a [u8], with_deferred: bool) -> ArxmlLexer<'a> {
    let bufpos = vk::any_usize();
    vk::assume(bufpos <= buf.len());
    let line = vk::any_usize();
    vk::assume(line >= 1 && line <= 1 + count_nl(buf, bufpos));
    let deferred_end = if with_deferred && vk::any_bool() {
        let s = vk::any_usize();
        let e = vk::any_usize();
        vk::assume(s <= e && e <= bufpos);
        Some((s, e))
    } else {
        None
    };
    ArxmlLexer {
        buffer: buf,
        bufpos,
        line,
        deferred_end,
        sourcefile: PathBuf::new(),
    }
}

/// precondition of the '<...>' steps: buffer[bufpos] == '<', endpos is the first '>' after it, endpos > bufpos + 1
fn assume_tag(lx: &ArxmlLexer) -> usize {
    let len = lx.buffer.len();
    vk::assume(lx.bufpos < len);
    vk::assume(lx.buffer[lx.bufpos] == b'<');
    let endpos = vk::any_usize();
    vk::assume(endpos > lx.bufpos + 1 && endpos < len);
    vk::assume(lx.buffer[endpos] == b'>');
    let mut i = lx.bufpos + 1;
    while i < endpos {
        vk::assume(lx.buffer[i] != b'>');
        i += 1;
    }
    endpos
}

fn lexer_err_line_ok(e: &AutosarDataError, buf: &[u8]) -> bool {
    match e {
        AutosarDataError::LexerError { line, .. } => *line >= 1 && *line <= 1 + count_nl(buf, buf.len()),
        _ => false,
    }
}

/// offset of a sub-slice inside the buffer (both are known to belong to the same allocation)
fn offset_in(buf: &[u8], part: &[u8]) -> usize {
    unsafe { part.as_ptr().offset_from(buf.as_ptr()) as usize }
}

fn bytes_eq(a: &[u8], b: &[u8]) -> bool {
    if a.len() != b.len() {
        return false;
    }
    let mut i = 0;
    while i < a.len() {
        if a[i] != b[i] {
            return false;
        }
        i += 1;
    }
    true
}

// ---------------------------------------------------------------------------------------------------------
// C02: totality steps. asserted: no panic / overflow / out-of-bounds (Kani's checks), invariant afterwards,
// strict progress of the cursor (termination measure len - bufpos), error lines within the input's lines
// ---------------------------------------------------------------------------------------------------------
macro_rules! h_lex_characters {
    ($name:ident, $n:literal, $unw:literal) => {
        #[cfg_attr(kani, kani::proof)]
        #[cfg_attr(kani, kani::unwind($unw))]
        pub fn $name() {
            let buf: [u8; $n] = vk::any_bytes::<$n>();
            let len = vk::any_usize();
            vk::assume(len <= $n);
            let mut lx = any_lexer(&buf[..len], true);
            vk::assume(lx.bufpos < len && buf[lx.bufpos] != b'<');
            let old = lx.bufpos;
            let (ev, _all_ws) = lx.read_characters();
            vk_cover!(lx.bufpos == len, "text runs to the end of the input");
            vk_cover!(lx.bufpos < len, "text ends at a '<'");
            vk_check!(lx.bufpos > old, "read_characters made no progress");
            vk_check!(inv(&lx), "tokenizer invariant broken by read_characters");
            core::mem::forget(ev);
            core::mem::forget(lx);
        }
    };
}

macro_rules! h_lex_element_start {
    ($name:ident, $n:literal, $unw:literal) => {
        #[cfg_attr(kani, kani::proof)]
        #[cfg_attr(kani, kani::unwind($unw))]
        pub fn $name() {
            let buf: [u8; $n] = vk::any_bytes::<$n>();
            let len = vk::any_usize();
            vk::assume(len <= $n);
            let mut lx = any_lexer(&buf[..len], false);
            let endpos = assume_tag(&lx);
            let old = lx.bufpos;
            let ev = lx.read_element_start(endpos);
            vk_cover!(lx.deferred_end.is_some(), "self-closing element");
            vk_cover!(lx.deferred_end.is_none(), "open element");
            vk_check!(lx.bufpos > old, "read_element_start made no progress");
            vk_check!(inv(&lx), "tokenizer invariant broken by read_element_start");
            core::mem::forget(ev);
            core::mem::forget(lx);
        }
    };
}

macro_rules! h_lex_element_end {
    ($name:ident, $n:literal, $unw:literal) => {
        #[cfg_attr(kani, kani::proof)]
        #[cfg_attr(kani, kani::unwind($unw))]
        pub fn $name() {
            let buf: [u8; $n] = vk::any_bytes::<$n>();
            let len = vk::any_usize();
            vk::assume(len <= $n);
            let mut lx = any_lexer(&buf[..len], false);
            let endpos = assume_tag(&lx);
            vk::assume(buf[lx.bufpos + 1] == b'/');
            let old = lx.bufpos;
            let ev = lx.read_element_end(endpos);
            vk_cover!(true, "end tag read");
            vk_check!(lx.bufpos > old, "read_element_end made no progress");
            vk_check!(inv(&lx), "tokenizer invariant broken by read_element_end");
            core::mem::forget(ev);
            core::mem::forget(lx);
        }
    };
}

macro_rules! h_lex_xml_header {
    ($name:ident, $n:literal, $unw:literal) => {
        #[cfg_attr(kani, kani::proof)]
        #[cfg_attr(kani, kani::unwind($unw))]
        pub fn $name() {
            let buf: [u8; $n] = vk::any_bytes::<$n>();
            let len = vk::any_usize();
            vk::assume(len <= $n);
            let mut lx = any_lexer(&buf[..len], false);
            let endpos = assume_tag(&lx);
            vk::assume(buf[lx.bufpos + 1] == b'?');
            let old = lx.bufpos;
            let r = lx.read_xml_header(endpos);
            match &r {
                Some(Err(e)) => {
                    vk_cover!(true, "processing instruction rejected");
                    vk_check!(lexer_err_line_ok(e, &buf[..len]), "error line outside the input's lines (read_xml_header)");
                    // an error ends tokenizing: no progress required
                    vk_check!(lx.bufpos <= len, "cursor beyond the end of the input after an error");
                }
                Some(Ok(_)) => {
                    vk_check!(lx.bufpos > old, "read_xml_header made no progress");
                    vk_check!(inv(&lx), "tokenizer invariant broken by read_xml_header");
                }
                None => {
                    vk_cover!(true, "processing instruction skipped");
                    vk_check!(lx.bufpos > old, "read_xml_header made no progress");
                    vk_check!(inv(&lx), "tokenizer invariant broken by read_xml_header");
                }
            }
            core::mem::forget(r);
            core::mem::forget(lx);
        }
    };
}

// the real header text has 36+ bytes; with a concrete skeleton and symbolic holes the accepting path is reached:
// <?xml version=Q1.0Q encoding=QutfXQ S?>  (Q, X, S and the separator bytes symbolic)
macro_rules! h_lex_xml_header_tmpl {
    ($name:ident, $unw:literal) => {
        #[cfg_attr(kani, kani::proof)]
        #[cfg_attr(kani, kani::unwind($unw))]
        pub fn $name() {
            let mut buf: [u8; 44] = *b"<?xml version=\"1.0\" encoding=\"utf-8\" s=\"y\"?>";
            // symbolic holes: separators, quotes, one name byte, one value byte, the byte before '>'
            let holes: [usize; 9] = [5, 14, 18, 19, 29, 34, 35, 36, 42];
            let mut i = 0;
            while i < holes.len() {
                buf[holes[i]] = vk::any_u8();
                vk::assume(buf[holes[i]] != b'>');
                i += 1;
            }
            let mut lx = ArxmlLexer { buffer: &buf[..], bufpos: 0, line: 1, deferred_end: None, sourcefile: PathBuf::new() };
            let r = lx.read_xml_header(43);
            match &r {
                Some(Err(e)) => {
                    vk_cover!(true, "header rejected");
                    vk_check!(lexer_err_line_ok(e, &buf[..]), "error line outside the input's lines (read_xml_header)");
                }
                Some(Ok(_)) => {
                    vk_cover!(true, "header accepted");
                    vk_check!(lx.bufpos == 44 && inv(&lx), "tokenizer invariant broken by read_xml_header");
                }
                None => {
                    vk_cover!(true, "not the xml declaration");
                    vk_check!(lx.bufpos == 44 && inv(&lx), "tokenizer invariant broken by read_xml_header");
                }
            }
            core::mem::forget(r);
            core::mem::forget(lx);
        }
    };
}

macro_rules! h_lex_comment {
    ($name:ident, $n:literal, $unw:literal) => {
        #[cfg_attr(kani, kani::proof)]
        #[cfg_attr(kani, kani::unwind($unw))]
        pub fn $name() {
            let buf: [u8; $n] = vk::any_bytes::<$n>();
            let len = vk::any_usize();
            vk::assume(len <= $n);
            let mut lx = any_lexer(&buf[..len], false);
            // what next() guarantees before read_comment(e): buffer[bufpos..bufpos+2] == "<!", bufpos + 1 < e < len,
            // buffer[e-2..=e] == "-->"
            vk::assume(lx.bufpos < len && buf[lx.bufpos] == b'<');
            let endpos = vk::any_usize();
            vk::assume(endpos > lx.bufpos + 1 && endpos < len);
            vk::assume(buf[lx.bufpos + 1] == b'!');
            vk::assume(buf[endpos] == b'>' && buf[endpos - 1] == b'-' && buf[endpos - 2] == b'-');
            let old = lx.bufpos;
            let r = lx.read_comment(endpos);
            match &r {
                Err(e) => {
                    vk_cover!(true, "malformed comment rejected");
                    vk_check!(lexer_err_line_ok(e, &buf[..len]), "error line outside the input's lines (read_comment)");
                }
                Ok(_) => {
                    vk_cover!(true, "comment accepted");
                    vk_check!(lx.bufpos > old, "read_comment made no progress");
                    vk_check!(inv(&lx), "tokenizer invariant broken by read_comment");
                }
            }
            core::mem::forget(r);
            core::mem::forget(lx);
        }
    };
}

// the dispatcher itself: next() from an arbitrary valid state on an arbitrary buffer
macro_rules! h_lex_next {
    ($name:ident, $n:literal, $unw:literal) => {
        #[cfg_attr(kani, kani::proof)]
        #[cfg_attr(kani, kani::unwind($unw))]
        pub fn $name() {
            let buf: [u8; $n] = vk::any_bytes::<$n>();
            let len = vk::any_usize();
            vk::assume(len <= $n);
            let mut lx = any_lexer(&buf[..len], true);
            let old = lx.bufpos;
            let had_deferred = lx.deferred_end.is_some();
            let r = lx.next();
            let mut ok = true;
            let mut progress = true;
            let mut line_ok = true;
            match &r {
                Ok((line, ev)) => {
                    line_ok = *line >= 1 && *line <= 1 + count_nl(&buf[..len], len);
                    if let ArxmlEvent::EndOfFile = ev {
                        progress = true;
                    } else if !had_deferred {
                        progress = false; // decided below, after the borrow of lx ends
                    }
                }
                Err(e) => {
                    ok = false;
                    line_ok = lexer_err_line_ok(e, &buf[..len]);
                }
            }
            let is_eof = matches!(&r, Ok((_, ArxmlEvent::EndOfFile)));
            core::mem::forget(r);
            vk_cover!(!ok, "some input is rejected");
            vk_cover!(ok && !is_eof, "some input yields a token");
            vk_check!(line_ok, "line number outside the input's lines (next)");
            if ok {
                vk_check!(inv(&lx), "tokenizer invariant broken by next");
                if !is_eof && !had_deferred {
                    vk_check!(lx.bufpos > old, "next returned a token without consuming input");
                }
                if is_eof {
                    vk_check!(lx.bufpos == len, "end of file reported before the end of the input");
                }
            }
            let _ = progress;
            core::mem::forget(lx);
        }
    };
}

// ---------------------------------------------------------------------------------------------------------
// C01 (token level): the tokenizer hands out exactly the bytes of the document
// ---------------------------------------------------------------------------------------------------------
// K3: a comment token is exactly the text between "<!--" and the first "-->" (the writer emits "<!--" + text + "-->")
macro_rules! h_lex_comment_exact {
    ($name:ident, $n:literal, $unw:literal) => {
        #[cfg_attr(kani, kani::proof)]
        #[cfg_attr(kani, kani::unwind($unw))]
        pub fn $name() {
            let buf: [u8; $n] = vk::any_bytes::<$n>();
            let len = vk::any_usize();
            vk::assume(len <= $n);
            let mut lx = any_lexer(&buf[..len], false);
            vk::assume(lx.bufpos < len && buf[lx.bufpos] == b'<');
            let endpos = vk::any_usize();
            vk::assume(endpos > lx.bufpos + 1 && endpos < len);
            vk::assume(buf[lx.bufpos + 1] == b'!');
            vk::assume(buf[endpos] == b'>' && buf[endpos - 1] == b'-' && buf[endpos - 2] == b'-');
            let old = lx.bufpos;
            let r = lx.read_comment(endpos);
            let wellformed = endpos >= old + 6 && buf[old + 2] == b'-' && buf[old + 3] == b'-';
            match &r {
                Ok(ArxmlEvent::Comment(text)) => {
                    vk_cover!(text.len() > 0, "non-empty comment");
                    vk_check!(wellformed, "a token that does not start with <!-- was accepted as a comment");
                    vk_check!(offset_in(&buf, text) == old + 4 && text.len() == endpos - 2 - (old + 4), "comment text is not the bytes between <!-- and -->");
                    vk_check!(lx.bufpos == endpos + 1, "cursor not directly behind the comment");
                }
                Ok(_) => vk_check!(false, "read_comment returned a different token kind"),
                Err(_) => vk_check!(!wellformed, "a well-formed comment was rejected"),
            }
            core::mem::forget(r);
            core::mem::forget(lx);
        }
    };
}

// element start: name = bytes up to the first white space, attribute text = the rest (without the '/' of <a/>),
// and the deferred end token of <a/> carries the same name
macro_rules! h_lex_element_start_exact {
    ($name:ident, $n:literal, $unw:literal) => {
        #[cfg_attr(kani, kani::proof)]
        #[cfg_attr(kani, kani::unwind($unw))]
        pub fn $name() {
            let buf: [u8; $n] = vk::any_bytes::<$n>();
            let len = vk::any_usize();
            vk::assume(len <= $n);
            let mut lx = any_lexer(&buf[..len], false);
            let endpos = assume_tag(&lx);
            let old = lx.bufpos;
            let ev = lx.read_element_start(endpos);
            let selfclosing = buf[endpos - 1] == b'/';
            let text_end = if selfclosing { endpos - 1 } else { endpos };
            // reference: first white space in buf[old+1 .. text_end]
            let mut split = text_end;
            let mut i = old + 1;
            while i < text_end {
                if is_ws(buf[i]) {
                    split = i;
                    break;
                }
                i += 1;
            }
            match &ev {
                ArxmlEvent::BeginElement(name, attrs) => {
                    vk_cover!(attrs.len() > 0, "element with attribute text");
                    vk_cover!(selfclosing, "self-closing element");
                    vk_check!(offset_in(&buf, name) == old + 1 && name.len() == split - (old + 1), "element name is not the bytes up to the first white space");
                    if split < text_end {
                        // the attribute text is the rest of the tag; an implementation may strip white space around it
                        let mut okr = true;
                        if attrs.len() > 0 {
                            let s0 = offset_in(&buf, attrs);
                            let e0 = s0 + attrs.len();
                            okr = s0 >= split + 1 && e0 <= text_end;
                            let mut j = split + 1;
                            while okr && j < text_end {
                                if (j < s0 || j >= e0) && !is_ws(buf[j]) {
                                    okr = false;
                                }
                                j += 1;
                            }
                        } else {
                            let mut j = split + 1;
                            while j < text_end {
                                if !is_ws(buf[j]) {
                                    okr = false;
                                }
                                j += 1;
                            }
                        }
                        vk_check!(okr, "attribute text is not the rest of the tag (up to surrounding white space)");
                    } else {
                        vk_check!(attrs.len() == 0, "attribute text invented");
                    }
                    match lx.deferred_end {
                        Some((s, e)) => vk_check!(selfclosing && s == old + 1 && e == split, "deferred end token does not carry the element's name"),
                        None => vk_check!(!selfclosing, "<a/> produced no end token"),
                    }
                    vk_check!(lx.bufpos == endpos + 1, "cursor not directly behind the tag");
                }
                _ => vk_check!(false, "read_element_start returned a different token kind"),
            }
            core::mem::forget(ev);
            core::mem::forget(lx);
        }
    };
}

macro_rules! h_lex_characters_exact {
    ($name:ident, $n:literal, $unw:literal) => {
        #[cfg_attr(kani, kani::proof)]
        #[cfg_attr(kani, kani::unwind($unw))]
        pub fn $name() {
            let buf: [u8; $n] = vk::any_bytes::<$n>();
            let len = vk::any_usize();
            vk::assume(len <= $n);
            let mut lx = any_lexer(&buf[..len], false);
            vk::assume(lx.bufpos < len && buf[lx.bufpos] != b'<');
            let old = lx.bufpos;
            let (ev, all_ws) = lx.read_characters();
            // reference: text runs to the next '<' or the end of input
            let mut end = len;
            let mut any_non_ws = false;
            let mut i = old;
            while i < len {
                if buf[i] == b'<' {
                    end = i;
                    break;
                }
                if !is_ws(buf[i]) {
                    any_non_ws = true;
                }
                i += 1;
            }
            match &ev {
                ArxmlEvent::Characters(text) => {
                    vk_cover!(all_ws, "white space only");
                    vk_cover!(!all_ws && end < len, "text followed by a tag");
                    vk_check!(offset_in(&buf, text) == old && text.len() == end - old, "character token is not the bytes up to the next '<'");
                    vk_check!(all_ws == !any_non_ws, "white-space-only flag wrong (significant text would be dropped or blank text kept)");
                    vk_check!(lx.bufpos == end, "cursor not at the next '<'");
                }
                _ => vk_check!(false, "read_characters returned a different token kind"),
            }
            core::mem::forget(ev);
            core::mem::forget(lx);
        }
    };
}

macro_rules! h_lex_element_end_exact {
    ($name:ident, $n:literal, $unw:literal) => {
        #[cfg_attr(kani, kani::proof)]
        #[cfg_attr(kani, kani::unwind($unw))]
        pub fn $name() {
            let buf: [u8; $n] = vk::any_bytes::<$n>();
            let len = vk::any_usize();
            vk::assume(len <= $n);
            let mut lx = any_lexer(&buf[..len], false);
            let endpos = assume_tag(&lx);
            vk::assume(buf[lx.bufpos + 1] == b'/');
            let old = lx.bufpos;
            let ev = lx.read_element_end(endpos);
            match &ev {
                ArxmlEvent::EndElement(name) => {
                    vk_cover!(name.len() > 0, "named end tag");
                    vk_check!(offset_in(&buf, name) == old + 2 && name.len() == endpos - (old + 2), "end tag name is not the bytes between </ and >");
                    vk_check!(lx.bufpos == endpos + 1, "cursor not directly behind the end tag");
                }
                _ => vk_check!(false, "read_element_end returned a different token kind"),
            }
            core::mem::forget(ev);
            core::mem::forget(lx);
        }
    };
}

// ---------------------------------------------------------------------------------------------------------
// C02: the dispatcher next() with its five steps replaced by their contracts (assume-guarantee):
//   * each stub ASSERTS the precondition the step harnesses above assume (so a dispatcher that calls a step
//     outside its precondition is a counterexample), and
//   * returns an arbitrary result within the postcondition the step harnesses PROVE (progress, invariant).
// Only the real dispatch logic, the '>' search, the comment-end scan and the deferred token are executed, for ONE pass of the
// skip loop: a pass that loops (blank text, skipped processing instruction) ends in a state that satisfies the invariant with
// no deferred token and a larger cursor - one of the states the harness starts from - so all passes are covered by induction.
// ---------------------------------------------------------------------------------------------------------
#[cfg(kani)]
fn stub_post<'a>(lx: &mut ArxmlLexer<'a>, min_new: usize, max_new: usize) {
    let new = vk::any_usize();
    vk::assume(new >= min_new && new <= max_new && new > lx.bufpos && new <= lx.buffer.len());
    let line = vk::any_usize();
    vk::assume(line >= 1 && line <= 1 + count_nl(lx.buffer, new));
    lx.bufpos = new;
    lx.line = line;
}

#[cfg(kani)]
fn any_subslice<'a>(b: &'a [u8]) -> &'a [u8] {
    let s = vk::any_usize();
    let e = vk::any_usize();
    vk::assume(s <= e && e <= b.len());
    &b[s..e]
}

#[cfg(kani)]
fn stub_tag_pre(lx: &ArxmlLexer, endpos: usize) {
    let len = lx.buffer.len();
    kani::assert(lx.bufpos < len, "step called with the cursor at the end of the input");
    kani::assert(endpos > lx.bufpos + 1 && endpos < len, "step called with an end position outside (cursor+1, len)");
    kani::assert(lx.buffer[lx.bufpos] == b'<' && lx.buffer[endpos] == b'>', "step called on something that is not <...>");
}

#[cfg(kani)]
impl<'a> ArxmlLexer<'a> {
    fn stub_read_characters(&mut self) -> (ArxmlEvent<'a>, bool) {
        kani::assert(self.bufpos < self.buffer.len() && self.buffer[self.bufpos] != b'<', "read_characters called outside its precondition");
        let len = self.buffer.len();
        stub_post(self, 0, len);
        // white-space-only text makes the dispatcher loop: the state reached here satisfies the invariant with no deferred
        // token, i.e. it is one of the states this harness starts from -> covered by induction on len - cursor; cut the path.
        if vk::any_bool() {
            kani::assume(false);
        }
        (ArxmlEvent::Characters(any_subslice(self.buffer)), false)
    }

    fn stub_read_element_start(&mut self, endpos: usize) -> ArxmlEvent<'a> {
        stub_tag_pre(self, endpos);
        let old = self.bufpos;
        stub_post(self, endpos + 1, endpos + 1);
        if vk::any_bool() {
            let s = vk::any_usize();
            let e = vk::any_usize();
            vk::assume(s <= e && e <= self.bufpos);
            self.deferred_end = Some((s, e));
        }
        let _ = old;
        ArxmlEvent::BeginElement(any_subslice(self.buffer), any_subslice(self.buffer))
    }

    fn stub_read_element_end(&mut self, endpos: usize) -> ArxmlEvent<'a> {
        stub_tag_pre(self, endpos);
        kani::assert(self.buffer[self.bufpos + 1] == b'/', "read_element_end called on a tag that does not start with </");
        stub_post(self, endpos + 1, endpos + 1);
        ArxmlEvent::EndElement(any_subslice(self.buffer))
    }

    fn stub_read_xml_header(&mut self, endpos: usize) -> Option<Result<ArxmlEvent<'a>, AutosarDataError>> {
        stub_tag_pre(self, endpos);
        kani::assert(self.buffer[self.bufpos + 1] == b'?', "read_xml_header called on a tag that does not start with <?");
        let which = vk::any_u8();
        if which == 0 {
            // error: line is the current line, cursor anywhere up to len
            Some(Err(AutosarDataError::LexerError { filename: PathBuf::new(), line: self.line, source: ArxmlLexerError::InvalidXmlHeader }))
        } else if which == 1 {
            stub_post(self, endpos + 1, endpos + 1);
            Some(Ok(ArxmlEvent::ArxmlHeader(None)))
        } else {
            stub_post(self, endpos + 1, endpos + 1);
            // a skipped processing instruction makes the dispatcher loop: covered by induction (see stub_read_characters)
            kani::assume(false);
            None
        }
    }

    fn stub_read_comment(&mut self, endpos: usize) -> Result<ArxmlEvent<'a>, AutosarDataError> {
        let len = self.buffer.len();
        kani::assert(self.bufpos < len && endpos > self.bufpos + 1 && endpos < len, "read_comment called with an end position outside (cursor+1, len)");
        kani::assert(self.buffer[self.bufpos] == b'<' && self.buffer[self.bufpos + 1] == b'!', "read_comment called on something that does not start with <!");
        kani::assert(self.buffer[endpos] == b'>' && self.buffer[endpos - 1] == b'-' && self.buffer[endpos - 2] == b'-', "read_comment called with an end position that is not the end of -->");
        if vk::any_bool() {
            Err(AutosarDataError::LexerError { filename: PathBuf::new(), line: self.line, source: ArxmlLexerError::InvalidComment })
        } else {
            stub_post(self, endpos + 1, endpos + 1);
            Ok(ArxmlEvent::Comment(any_subslice(self.buffer)))
        }
    }
}

macro_rules! h_lex_next_contracts {
    ($name:ident, $n:literal, $unw:literal) => {
        #[cfg(kani)]
        #[kani::proof]
        #[kani::unwind($unw)]
        #[kani::stub(ArxmlLexer::read_characters, ArxmlLexer::stub_read_characters)]
        #[kani::stub(ArxmlLexer::read_element_start, ArxmlLexer::stub_read_element_start)]
        #[kani::stub(ArxmlLexer::read_element_end, ArxmlLexer::stub_read_element_end)]
        #[kani::stub(ArxmlLexer::read_xml_header, ArxmlLexer::stub_read_xml_header)]
        #[kani::stub(ArxmlLexer::read_comment, ArxmlLexer::stub_read_comment)]
        pub fn $name() {
            let buf: [u8; $n] = vk::any_bytes::<$n>();
            let len = vk::any_usize();
            vk::assume(len <= $n);
            let mut lx = any_lexer(&buf[..len], true);
            let old = lx.bufpos;
            let had_deferred = lx.deferred_end.is_some();
            let r = lx.next();
            let mut ok = true;
            let mut line_ok = true;
            match &r {
                Ok((line, _)) => {
                    line_ok = *line >= 1 && *line <= 1 + count_nl(&buf[..len], len);
                }
                Err(e) => {
                    ok = false;
                    line_ok = lexer_err_line_ok(e, &buf[..len]);
                }
            }
            let is_eof = matches!(&r, Ok((_, ArxmlEvent::EndOfFile)));
            core::mem::forget(r);
            vk_cover!(!ok, "some input is rejected");
            vk_cover!(ok && !is_eof && !had_deferred, "some input yields a token");
            vk_check!(line_ok, "line number outside the input's lines (next)");
            if ok {
                vk_check!(inv(&lx), "tokenizer invariant broken by next");
                if !is_eof && !had_deferred {
                    vk_check!(lx.bufpos > old, "next returned a token without consuming input");
                }
                if is_eof {
                    vk_check!(lx.bufpos == len, "end of file reported before the end of the input");
                }
            }
            core::mem::forget(lx);
        }
        #[cfg(not(kani))]
        pub fn $name() {
            // native replay: the real steps run instead of their contracts
            let buf: [u8; $n] = vk::any_bytes::<$n>();
            let len = vk::any_usize();
            vk::assume(len <= $n);
            let mut lx = any_lexer(&buf[..len], true);
            let old = lx.bufpos;
            let had_deferred = lx.deferred_end.is_some();
            let r = lx.next();
            let total = 1 + count_nl(&buf[..len], len);
            match &r {
                Ok((line, ev)) => {
                    vk_check!(*line >= 1 && *line <= total, "line number outside the input's lines (next)");
                    let is_eof = matches!(ev, ArxmlEvent::EndOfFile);
                    vk_check!(is_eof || had_deferred || lx.bufpos > old, "next returned a token without consuming input");
                    vk_check!(!is_eof || lx.bufpos == len, "end of file reported before the end of the input");
                }
                Err(e) => vk_check!(lexer_err_line_ok(e, &buf[..len]), "line number outside the input's lines (next)"),
            }
        }
    };
}
