// In-crate harnesses (included by the guarded hook at the end of the source file of the same name).
use super::*;

include!(concat!(env!("AUTOSAR_DATA_VERIF_DIR"), "/harness/vk.rs"));

// ---------------------------------------------------------------------------------------------------------
// native replay bodies for properties decided by engine E2 (MIR symbolic executor)
// ---------------------------------------------------------------------------------------------------------
#[cfg(not(kani))]
fn replay_value() -> CharacterData {
    match vk::any_u8() {
        0 => {
            let i = vk::any_u16();
            assert!(i < 2810, "VK_REPLAY_SHAPE");
            // SAFETY: EnumItem is repr(u16) with contiguous discriminants 0..table size
            CharacterData::Enum(unsafe { core::mem::transmute::<u16, EnumItem>(i) })
        }
        1 => {
            let len = vk::any_usize();
            let mut v = std::vec::Vec::new();
            for _ in 0..len {
                v.push(vk::any_u8());
            }
            CharacterData::String(String::from_utf8(v).expect("VK_REPLAY_SHAPE"))
        }
        2 => CharacterData::UnsignedInteger(vk::any_u64()),
        _ => CharacterData::Float(f64::from_bits(vk::any_u64())),
    }
}

// C14: the comparison used by sort is a total order consistent with ==
#[cfg(not(kani))]
pub fn n_c14_value_order() {
    use std::cmp::Ordering::*;
    let with_attr = vk::any_bool();
    let a = replay_value();
    let b = replay_value();
    let c = replay_value();
    let vals = [a, b, c];
    let mut attrs: std::vec::Vec<crate::Attribute> = std::vec::Vec::new();
    if with_attr {
        for v in vals.iter() {
            let i = vk::any_u16();
            assert!(i < 101, "VK_REPLAY_SHAPE");
            attrs.push(crate::Attribute { attrname: unsafe { core::mem::transmute::<u16, crate::AttributeName>(i) }, content: v.clone() });
        }
    }
    let cmp = |x: usize, y: usize| if with_attr { attrs[x].cmp(&attrs[y]) } else { vals[x].cmp(&vals[y]) };
    let eq = |x: usize, y: usize| if with_attr { attrs[x] == attrs[y] } else { vals[x] == vals[y] };
    vk_check!(cmp(0, 0) == Equal, "cmp(a, a) != Equal");
    for (x, y, z) in [(0, 1, 2), (0, 2, 1), (1, 0, 2), (1, 2, 0), (2, 0, 1), (2, 1, 0)] {
        let (xy, yx, yz, xz) = (cmp(x, y), cmp(y, x), cmp(y, z), cmp(x, z));
        vk_check!(yx == xy.reverse(), "comparison is not antisymmetric");
        if xy != Greater && yz != Greater {
            vk_check!(xz != Greater, "comparison is not transitive");
            if xy == Less || yz == Less {
                vk_check!(xz == Less, "comparison is not transitive");
            }
        }
    }
    vk_check!((cmp(0, 1) == Equal) == eq(0, 1), "cmp == Equal is not the same as ==");
}

// C20: independent reading of the AUTOSAR integer forms 0 | [+-]?[1-9][0-9]* | 0[xX]hex+ | 0[bB][01]+ | 0[0-7]+
#[cfg(not(kani))]
fn n_ref_integer(s: &[u8]) -> Option<(bool, Option<u128>)> {
    fn acc(ds: &[u8], radix: u32) -> Option<Option<u128>> {
        if ds.is_empty() {
            return None;
        }
        let mut v: Option<u128> = Some(0);
        for d in ds {
            let dv = (*d as char).to_digit(radix)? as u128;
            v = v.and_then(|x| x.checked_mul(radix as u128)).and_then(|x| x.checked_add(dv));
        }
        Some(v)
    }
    if s.is_empty() {
        return None;
    }
    if s[0] == b'0' {
        if s.len() == 1 {
            return Some((false, Some(0)));
        }
        return match s[1] {
            b'x' | b'X' => acc(&s[2..], 16).map(|v| (false, v)),
            b'b' | b'B' => acc(&s[2..], 2).map(|v| (false, v)),
            _ => acc(&s[1..], 8).map(|v| (false, v)),
        };
    }
    let (neg, ds) = match s[0] {
        b'-' => (true, &s[1..]),
        b'+' => (false, &s[1..]),
        _ => (false, s),
    };
    if ds.is_empty() || !(b'1'..=b'9').contains(&ds[0]) {
        return None;
    }
    acc(ds, 10).map(|v| (neg, v))
}

#[cfg(not(kani))]
fn n_check_int<T>(text: &str, min: i128, max: i128, conv: fn(T) -> i128)
where
    T: num_traits::Num + TryFrom<u64>,
{
    let got = CharacterData::String(text.to_string()).parse_integer::<T>().map(conv);
    let Some((neg, mag)) = n_ref_integer(text.as_bytes()) else { return; };
    let val: Option<i128> = mag.and_then(|m| i128::try_from(m).ok()).map(|m| if neg { -m } else { m });
    let want = val.filter(|v| *v >= min && *v <= max);
    vk_check!(got == want, "parse_integer does not return the exact value of an AUTOSAR integer text (or returns one that does not fit)");
}

#[cfg(not(kani))]
pub fn n_c20_integer() {
    let ty = vk::any_u8();
    let len = vk::any_usize();
    let mut v = std::vec::Vec::new();
    for _ in 0..len {
        v.push(vk::any_u8());
    }
    let text = String::from_utf8(v).expect("VK_REPLAY_SHAPE");
    match ty {
        0 => n_check_int::<u8>(&text, 0, u8::MAX as i128, |x| x as i128),
        1 => n_check_int::<i8>(&text, i8::MIN as i128, i8::MAX as i128, |x| x as i128),
        2 => n_check_int::<u16>(&text, 0, u16::MAX as i128, |x| x as i128),
        3 => n_check_int::<i16>(&text, i16::MIN as i128, i16::MAX as i128, |x| x as i128),
        4 => n_check_int::<u32>(&text, 0, u32::MAX as i128, |x| x as i128),
        5 => n_check_int::<i32>(&text, i32::MIN as i128, i32::MAX as i128, |x| x as i128),
        6 => n_check_int::<u64>(&text, 0, u64::MAX as i128, |x| x as i128),
        _ => n_check_int::<i64>(&text, i64::MIN as i128, i64::MAX as i128, |x| x as i128),
    }
}

#[cfg(not(kani))]
pub fn n_c20_bool() {
    let len = vk::any_usize();
    let mut v = std::vec::Vec::new();
    for _ in 0..len {
        v.push(vk::any_u8());
    }
    let text = String::from_utf8(v).expect("VK_REPLAY_SHAPE");
    let want = match text.as_str() {
        "true" | "1" => Some(true),
        "false" | "0" => Some(false),
        _ => None,
    };
    vk_check!(CharacterData::String(text).parse_bool() == want, "parse_bool wrong");
}

#[cfg(not(kani))]
pub fn n_c20_float_radix() {
    let len = vk::any_usize();
    let mut v = std::vec::Vec::new();
    for _ in 0..len {
        v.push(vk::any_u8());
    }
    let text = String::from_utf8(v).expect("VK_REPLAY_SHAPE");
    let Some((neg, mag)) = n_ref_integer(text.as_bytes()) else { return; };
    if neg || !text.starts_with('0') {
        return;
    }
    let got = CharacterData::String(text.clone()).parse_float();
    if let Some(m) = mag.and_then(|m| u64::try_from(m).ok()) {
        vk_check!(got.map(f64::to_bits) == Some((m as f64).to_bits()), "parse_float does not return the value of a radix-prefixed text");
    }
}

// C17 (value level): compatibility verdict == check_value == re-validating the text == item table
#[cfg(not(kani))]
pub fn n_c17_value() {
    let kind = vk::any_u8();
    let bit = vk::any_u32();
    let target = AutosarVersion::from_val(bit).expect("VK_REPLAY_SHAPE");
    let item = |i: u16| -> EnumItem {
        assert!(i < 2810, "VK_REPLAY_SHAPE");
        unsafe { core::mem::transmute::<u16, EnumItem>(i) }
    };
    if kind == 0 {
        let i0 = vk::any_u16();
        let m0 = vk::any_u32();
        let i1 = vk::any_u16();
        let m1 = vk::any_u32();
        let vi = vk::any_u16();
        let rows: &'static [(EnumItem, u32)] = std::boxed::Box::leak(std::boxed::Box::new([(item(i0), m0), (item(i1), m1)]));
        let spec = CharacterDataSpec::Enum { items: rows };
        let value = CharacterData::Enum(item(vi));
        let (okc, mask) = value.check_version_compatibility(&spec, target);
        let cv = CharacterData::check_value(&value, &spec, target);
        let p = CharacterData::parse(item(vi).to_str(), &spec, target).is_some();
        let want = if i0 == vi { m0 & bit != 0 } else { i1 == vi && m1 & bit != 0 };
        vk_check!(okc == cv, "check_version_compatibility and check_value disagree");
        vk_check!(okc == p, "check_version_compatibility disagrees with re-validating the value text");
        vk_check!(okc == (mask & bit != 0), "returned mask does not contain the target version exactly when compatible");
        vk_check!(okc == want, "compatibility verdict differs from the item table");
    } else {
        let (value, spec) = if kind == 1 {
            (CharacterData::UnsignedInteger(vk::any_u64()), CharacterDataSpec::UnsignedInteger)
        } else {
            let a = vk::any_u8();
            let b = vk::any_u8();
            (CharacterData::String(String::from_utf8(std::vec![a, b]).expect("VK_REPLAY_SHAPE")), CharacterDataSpec::String { preserve_whitespace: false, max_length: Some(3) })
        };
        let (okc, mask) = value.check_version_compatibility(&spec, target);
        vk_check!(okc && (mask & bit != 0), "a value without version restrictions is reported incompatible");
        vk_check!(CharacterData::check_value(&value, &spec, target), "check_value rejects a conforming value");
    }
}

#[cfg(not(kani))]
pub fn n_c20_float_special() {
    let v = f64::from_bits(vk::any_u64());
    let mut t = String::new();
    CharacterData::Float(v).serialize_internal(&mut t);
    let back = CharacterData::String(t).parse_float();
    vk_check!(back.is_some(), "the text written for a float is not read back as a number");
    let g = back.unwrap();
    vk_check!((v.is_nan() && g.is_nan()) || v == g, "format -> parse of a float returns a different value");
}
