// In-crate harnesses (included by the guarded hook at the end of the source file of the same name).
use super::*;

include!(concat!(env!("AUTOSAR_DATA_VERIF_DIR"), "/harness/vk.rs"));

// ---------------------------------------------------------------------------------------------------------
// native replay bodies for properties decided by engine E2 (MIR symbolic executor)
// ---------------------------------------------------------------------------------------------------------
#[cfg(not(kani))]
fn replay_value() -> CharacterData {
    match vk::any_u8() {
        0 => {
            let i = vk::any_u16();
            assert!(i < 2810, "VK_REPLAY_SHAPE");
            // SAFETY: EnumItem is repr(u16) with contiguous discriminants 0..table size
            CharacterData::Enum(unsafe { core::mem::transmute::<u16, EnumItem>(i) })
        }
        1 => {
            let len = vk::any_usize();
            let mut v = std::vec::Vec::new();
            for _ in 0..len {
                v.push(vk::any_u8());
            }
            CharacterData::String(String::from_utf8(v).expect("VK_REPLAY_SHAPE"))
        }
        2 => CharacterData::UnsignedInteger(vk::any_u64()),
        _ => CharacterData::Float(f64::from_bits(vk::any_u64())),
    }
}

// C14: the comparison used by sort is a total order consistent with ==
#[cfg(not(kani))]
pub fn n_c14_value_order() {
    use std::cmp::Ordering::*;
    let with_attr = vk::any_bool();
    let a = replay_value();
    let b = replay_value();
    let c = replay_value();
    let (ab, ba, bc, ac, aa, same);
    if with_attr {
        let mut names = std::vec::Vec::new();
        for _ in 0..3 {
            let i = vk::any_u16();
            assert!(i < 101, "VK_REPLAY_SHAPE");
            names.push(unsafe { core::mem::transmute::<u16, crate::AttributeName>(i) });
        }
        let x = crate::Attribute { attrname: names[0], content: a };
        let y = crate::Attribute { attrname: names[1], content: b };
        let z = crate::Attribute { attrname: names[2], content: c };
        ab = x.cmp(&y); ba = y.cmp(&x); bc = y.cmp(&z); ac = x.cmp(&z); aa = x.cmp(&x); same = x == y;
    } else {
        ab = a.cmp(&b); ba = b.cmp(&a); bc = b.cmp(&c); ac = a.cmp(&c); aa = a.cmp(&a); same = a == b;
    }
    vk_check!(aa == Equal, "cmp(a, a) != Equal");
    vk_check!(ba == ab.reverse(), "comparison is not antisymmetric");
    if ab != Greater && bc != Greater {
        vk_check!(ac != Greater, "comparison is not transitive");
        if ab == Less || bc == Less {
            vk_check!(ac == Less, "comparison is not transitive");
        }
    }
    vk_check!((ab == Equal) == same, "cmp == Equal is not the same as ==");
}
