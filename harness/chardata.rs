// In-crate harnesses (included by the guarded hook at the end of the source file of the same name).
use super::*;

include!(concat!(env!("AUTOSAR_DATA_VERIF_DIR"), "/harness/vk.rs"));
