// vk: thin layer between the harness bodies and the engine.
//  * under `cfg(kani)`   : values are nondeterministic (kani::any), `check` is an assertion decided by CBMC
//  * natively (replay)   : values are popped from a recorded counterexample (the byte vectors printed by
//                          Kani's concrete playback), so that the *same harness body* runs against the real
//                          functions in an ordinary build. A panic = the counterexample reproduces.
pub mod vk {
    #[cfg(not(kani))]
    extern crate std;

    #[cfg(not(kani))]
    std::thread_local! {
        static REPLAY: core::cell::RefCell<std::collections::VecDeque<std::vec::Vec<u8>>> =
            core::cell::RefCell::new(std::collections::VecDeque::new());
    }

    #[cfg(not(kani))]
    pub fn load_replay(vals: std::vec::Vec<std::vec::Vec<u8>>) {
        REPLAY.with(|r| *r.borrow_mut() = vals.into_iter().collect());
    }

    #[cfg(not(kani))]
    fn pop() -> std::vec::Vec<u8> {
        REPLAY.with(|r| r.borrow_mut().pop_front()).expect("VK_REPLAY_EXHAUSTED")
    }

    #[cfg(not(kani))]
    fn pop_n(n: usize) -> std::vec::Vec<u8> {
        let mut v = pop();
        while v.len() < n {
            let mut w = pop();
            v.append(&mut w);
        }
        assert!(v.len() == n, "VK_REPLAY_SHAPE");
        v
    }

    #[cfg(kani)]
    pub fn any_u8() -> u8 { kani::any() }
    #[cfg(not(kani))]
    pub fn any_u8() -> u8 { pop_n(1)[0] }

    #[cfg(kani)]
    pub fn any_bool() -> bool { kani::any() }
    #[cfg(not(kani))]
    pub fn any_bool() -> bool { pop_n(1)[0] & 1 == 1 }

    #[cfg(kani)]
    pub fn any_u16() -> u16 { kani::any() }
    #[cfg(not(kani))]
    pub fn any_u16() -> u16 { let v = pop_n(2); u16::from_le_bytes([v[0], v[1]]) }

    #[cfg(kani)]
    pub fn any_u32() -> u32 { kani::any() }
    #[cfg(not(kani))]
    pub fn any_u32() -> u32 { let v = pop_n(4); u32::from_le_bytes([v[0], v[1], v[2], v[3]]) }

    #[cfg(kani)]
    pub fn any_u64() -> u64 { kani::any() }
    #[cfg(not(kani))]
    pub fn any_u64() -> u64 {
        let v = pop_n(8);
        let mut a = [0u8; 8];
        a.copy_from_slice(&v);
        u64::from_le_bytes(a)
    }

    #[cfg(kani)]
    pub fn any_usize() -> usize { kani::any() }
    #[cfg(not(kani))]
    pub fn any_usize() -> usize { any_u64() as usize }

    #[cfg(kani)]
    pub fn any_bytes<const N: usize>() -> [u8; N] { kani::any() }
    #[cfg(not(kani))]
    pub fn any_bytes<const N: usize>() -> [u8; N] {
        let v = pop_n(N);
        let mut a = [0u8; N];
        a.copy_from_slice(&v);
        a
    }

    #[cfg(kani)]
    pub fn assume(c: bool) { kani::assume(c) }
    #[cfg(not(kani))]
    pub fn assume(c: bool) { if !c { panic!("VK_ASSUME_VIOLATED"); } }

    /// parse the replay file: first line harness name, then one line per recorded value: comma separated bytes
    #[cfg(not(kani))]
    pub fn read_replay_file() -> Option<(std::string::String, std::vec::Vec<std::vec::Vec<u8>>)> {
        let path = std::env::var("VERIF_REPLAY").ok()?;
        let text = std::fs::read_to_string(path).ok()?;
        let mut lines = text.lines();
        let name = std::string::String::from(lines.next()?.trim());
        let mut vals = std::vec::Vec::new();
        for l in lines {
            let l = l.trim();
            if l.is_empty() || l.starts_with('#') { continue; }
            let v: std::vec::Vec<u8> = l.split(',').filter(|x| !x.trim().is_empty()).map(|x| x.trim().parse::<u8>().unwrap()).collect();
            vals.push(v);
        }
        Some((name, vals))
    }
}

/// the property assertion
#[cfg(kani)]
macro_rules! vk_check { ($c:expr, $m:literal) => { kani::assert($c, $m) }; }
#[cfg(not(kani))]
macro_rules! vk_check { ($c:expr, $m:literal) => { if !($c) { panic!(concat!("VK_CHECK_FAILED: ", $m)); } }; }

/// reachability witness (vacuity guard): must come back SATISFIED
// (Kani's concrete playback emits tests for satisfied covers and then omits the failed assertion; the playback re-run
// therefore compiles the covers away with --cfg verif_nocover)
#[cfg(all(kani, not(verif_nocover)))]
macro_rules! vk_cover { ($c:expr, $m:literal) => { kani::cover!($c, $m) }; }
#[cfg(any(not(kani), verif_nocover))]
macro_rules! vk_cover { ($c:expr, $m:literal) => { let _ = $c; }; }
