// In-crate harnesses for autosar-data/src/parser.rs (included by the guarded hook at the end of that file).
use super::*;

include!(concat!(env!("AUTOSAR_DATA_VERIF_DIR"), "/harness/vk.rs"));

fn is_ws(b: u8) -> bool {
    b == b' ' || b == b'\t' || b == b'\n' || b == 0x0c || b == b'\r'
}

fn bytes_eq(a: &[u8], b: &[u8]) -> bool {
    if a.len() != b.len() {
        return false;
    }
    let mut i = 0;
    while i < a.len() {
        if a[i] != b[i] {
            return false;
        }
        i += 1;
    }
    true
}

fn offset_in(buf: &[u8], part: &[u8]) -> usize {
    unsafe { part.as_ptr().offset_from(buf.as_ptr()) as usize }
}

/// a parser in the middle of a document: symbolic current line L within a document of T lines (1 <= L <= T)
fn any_parser(strict: bool, line: usize) -> ArxmlParser<'static> {
    let mut p = ArxmlParser::new(PathBuf::new(), &[], strict);
    p.line = line;
    p
}

fn any_line() -> (usize, usize) {
    let total = vk::any_usize();
    let line = vk::any_usize();
    vk::assume(line >= 1 && line <= total);
    (line, total)
}

fn parser_err_line(e: &AutosarDataError) -> Option<usize> {
    match e {
        AutosarDataError::ParserError { line, .. } => Some(*line),
        _ => None,
    }
}

fn err_kind(e: &AutosarDataError) -> Option<core::mem::Discriminant<ArxmlParserError>> {
    match e {
        AutosarDataError::ParserError { source, .. } => Some(core::mem::discriminant(source)),
        _ => None,
    }
}

fn ascii_str<'a>(b: &'a [u8]) -> &'a str {
    let mut i = 0;
    while i < b.len() {
        vk::assume(b[i] < 0x80);
        i += 1;
    }
    // SAFETY: all bytes are ASCII
    unsafe { core::str::from_utf8_unchecked(b) }
}

// ---------------------------------------------------------------------------------------------------------
// trim_byte_string
// ---------------------------------------------------------------------------------------------------------
// C02: total on every byte string (incl. empty and all-blank)
macro_rules! h_par_trim_total {
    ($name:ident, $n:literal, $unw:literal) => {
        #[cfg_attr(kani, kani::proof)]
        #[cfg_attr(kani, kani::unwind($unw))]
        pub fn $name() {
            let buf: [u8; $n] = vk::any_bytes::<$n>();
            let len = vk::any_usize();
            vk::assume(len <= $n);
            let out = trim_byte_string(&buf[..len]);
            vk_cover!(out.len() == 0 && len > 0, "all-blank input");
            vk_cover!(out.len() > 0 && out.len() < len, "something trimmed");
            vk_check!(out.len() <= len, "trim_byte_string returned more than it was given");
        }
    };
}

// C01: exactly the leading and trailing XML white space is removed, nothing else
macro_rules! h_par_trim_exact {
    ($name:ident, $n:literal, $unw:literal) => {
        #[cfg_attr(kani, kani::proof)]
        #[cfg_attr(kani, kani::unwind($unw))]
        pub fn $name() {
            let buf: [u8; $n] = vk::any_bytes::<$n>();
            let len = vk::any_usize();
            vk::assume(len <= $n);
            let out = trim_byte_string(&buf[..len]);
            // reference
            let mut s = 0;
            while s < len && is_ws(buf[s]) {
                s += 1;
            }
            let mut e = len;
            while e > s && is_ws(buf[e - 1]) {
                e -= 1;
            }
            vk_cover!(s > 0 && e < len && e > s, "white space on both sides");
            vk_check!(out.len() == e - s, "trimmed length differs from the XML definition of surrounding white space");
            if e > s {
                vk_check!(offset_in(&buf, out) == s, "trimmed text starts at the wrong byte");
            }
        }
    };
}

// ---------------------------------------------------------------------------------------------------------
// unescape_string: C02 totality + line, C08 strict/lenient relation, C01 faithfulness of entity decoding
// ---------------------------------------------------------------------------------------------------------
macro_rules! h_par_unescape_total {
    ($name:ident, $n:literal, $unw:literal, $strict:literal) => {
        #[cfg_attr(kani, kani::proof)]
        #[cfg_attr(kani, kani::unwind($unw))]
        pub fn $name() {
            let buf: [u8; $n] = vk::any_bytes::<$n>();
            let len = vk::any_usize();
            vk::assume(len <= $n);
            let text = ascii_str(&buf[..len]);
            let (line, total) = any_line();
            let mut p = any_parser($strict, line);
            let r = p.unescape_string(text);
            match &r {
                Ok(v) => {
                    vk_cover!(v.len() < len, "an entity was decoded");
                }
                Err(e) => {
                    vk_cover!(true, "rejected");
                    let l = parser_err_line(e);
                    vk_check!(l.is_some() && l.unwrap() >= 1 && l.unwrap() <= total, "parser error line outside the input's lines");
                }
            }
            let mut i = 0;
            while i < p.warnings.len() {
                let l = parser_err_line(&p.warnings[i]);
                vk_check!(l.is_some() && l.unwrap() >= 1 && l.unwrap() <= total, "parser warning line outside the input's lines");
                i += 1;
            }
            core::mem::forget(r);
            core::mem::forget(p);
        }
    };
}

// one symbolic skeleton for the character-reference paths: PRE ++ hole bytes ++ POST, holes over all ASCII values
macro_rules! h_par_unescape_tmpl_total {
    ($name:ident, $pre:literal, $holes:literal, $post:literal, $unw:literal, $strict:literal) => {
        #[cfg_attr(kani, kani::proof)]
        #[cfg_attr(kani, kani::unwind($unw))]
        pub fn $name() {
            const PRE: &[u8] = $pre;
            const POST: &[u8] = $post;
            let mut buf = [0u8; $pre.len() + $holes + $post.len()];
            let mut i = 0;
            while i < PRE.len() {
                buf[i] = PRE[i];
                i += 1;
            }
            let holes: [u8; $holes] = vk::any_bytes::<$holes>();
            let mut j = 0;
            while j < $holes {
                buf[i] = holes[j];
                i += 1;
                j += 1;
            }
            let mut k = 0;
            while k < POST.len() {
                buf[i] = POST[k];
                i += 1;
                k += 1;
            }
            let text = ascii_str(&buf[..]);
            let (line, total) = any_line();
            let mut p = any_parser($strict, line);
            let r = p.unescape_string(text);
            match &r {
                Ok(v) => {
                    vk_cover!(v.len() < buf.len(), "the reference was decoded");
                }
                Err(e) => {
                    vk_cover!(true, "rejected");
                    let l = parser_err_line(e);
                    vk_check!(l.is_some() && l.unwrap() >= 1 && l.unwrap() <= total, "parser error line outside the input's lines");
                }
            }
            core::mem::forget(r);
            core::mem::forget(p);
        }
    };
}

// ---------------------------------------------------------------------------------------------------------
// native replay bodies for properties decided by engine E2 (MIR symbolic executor): the same property, stated on
// the real functions, executed on the concrete counterexample the solver produced. Never run under Kani.
// ---------------------------------------------------------------------------------------------------------
#[cfg(not(kani))]
fn replay_input() -> std::vec::Vec<u8> {
    let len = vk::any_usize();
    let mut v = std::vec::Vec::new();
    let mut i = 0;
    while i < len {
        v.push(vk::any_u8());
        i += 1;
    }
    v
}

// C01/K1: load(text) = v  =>  load(serialize(v)) = v  and  serialize(load(serialize(v))) = serialize(v)
#[cfg(not(kani))]
pub fn n_c01_text_roundtrip() {
    let input = replay_input();
    let strict = vk::any_bool();
    let preserve = vk::any_bool();
    let spec = CharacterDataSpec::String { preserve_whitespace: preserve, max_length: None };
    let mut p1 = ArxmlParser::new(PathBuf::new(), &[], strict);
    let Ok(v1) = p1.parse_character_data(&input, &spec) else { return; };
    let mut t1 = String::new();
    v1.serialize_internal(&mut t1);
    let mut p2 = ArxmlParser::new(PathBuf::new(), &[], strict);
    let r2 = p2.parse_character_data(t1.as_bytes(), &spec);
    vk_check!(r2.is_ok(), "text written for a loaded value is rejected when loaded again");
    let v2 = r2.unwrap();
    vk_check!(v1 == v2, "value changed by serialize -> load");
    let mut t2 = String::new();
    v2.serialize_internal(&mut t2);
    vk_check!(t1 == t2, "second serialization differs from the first");
}

// C08 (value level): strict accepts <=> lenient accepts without warnings, same value; lenient warning => strict fails with it
#[cfg(not(kani))]
fn n_uf_validator(_s: &[u8]) -> bool {
    N_VALIDATOR_RESULT.with(|c| c.get())
}
#[cfg(not(kani))]
std::thread_local! { static N_VALIDATOR_RESULT: std::cell::Cell<bool> = std::cell::Cell::new(true); }

// independent reading of XML 1.0 references: every & starts &lt; &gt; &amp; &apos; &quot; &#[0-9]+; or &#x[0-9a-fA-F]+;
#[cfg(not(kani))]
fn n_entities_wellformed(raw: &[u8]) -> bool {
    let mut i = 0;
    while i < raw.len() {
        if raw[i] != b'&' {
            i += 1;
            continue;
        }
        let rest = &raw[i..];
        let mut matched = false;
        for lit in [&b"&lt;"[..], b"&gt;", b"&amp;", b"&apos;", b"&quot;"] {
            if rest.starts_with(lit) {
                i += lit.len();
                matched = true;
                break;
            }
        }
        if matched {
            continue;
        }
        if rest.len() > 1 && rest[1] == b'#' {
            let mut j = 2;
            let hexa = rest.len() > 2 && rest[2] == b'x';
            if hexa {
                j = 3;
            }
            let mut k = j;
            while k < rest.len() && (if hexa { rest[k].is_ascii_hexdigit() } else { rest[k].is_ascii_digit() }) {
                k += 1;
            }
            if k > j && k < rest.len() && rest[k] == b';' {
                i += k + 1;
                continue;
            }
        }
        return false;
    }
    true
}

#[cfg(not(kani))]
pub fn n_c08_value() {
    let input = replay_input();
    let kind = vk::any_u8();
    let preserve = vk::any_bool();
    let ml = vk::any_usize();
    let max_length = if ml == usize::MAX { None } else { Some(ml) };
    static ITEMS: [(EnumItem, u32); 2] = [(EnumItem::default, 0x3ffff), (EnumItem::preserve, 0x0ffff)];
    // the validator is an arbitrary predicate in the solver's encoding: replay with both constant predicates
    for vres in [true, false] {
        N_VALIDATOR_RESULT.with(|c| c.set(vres));
        let spec = match kind {
            0 => CharacterDataSpec::String { preserve_whitespace: preserve, max_length },
            1 => CharacterDataSpec::Pattern { check_fn: n_uf_validator, regex: "<regex>", max_length },
            2 => CharacterDataSpec::UnsignedInteger,
            3 => CharacterDataSpec::Float,
            _ => CharacterDataSpec::Enum { items: &ITEMS },
        };
        let mut ps = ArxmlParser::new(PathBuf::new(), &[], true);
        let mut pl = ArxmlParser::new(PathBuf::new(), &[], false);
        let rs = ps.parse_character_data(&input, &spec);
        let rl = pl.parse_character_data(&input, &spec);
        vk_check!(ps.warnings.is_empty(), "strict mode recorded a warning instead of failing");
        match (&rs, &rl) {
            (Ok(a), Ok(b)) => {
                vk_check!(pl.warnings.is_empty(), "lenient loading warns about a value that strict loading accepts");
                vk_check!(a == b || (matches!((a, b), (CharacterData::Float(x), CharacterData::Float(y)) if x.to_bits() == y.to_bits())), "strict and lenient loading produce different values");
                match (&spec, a) {
                    (CharacterDataSpec::String { .. }, CharacterData::String(_)) => {
                        let t = trim_byte_string(&input);
                        let raw = if preserve { &input[..] } else { t };
                        vk_check!(max_length.is_none() || raw.len() <= max_length.unwrap(), "strict loading accepts a string longer than max_length");
                        vk_check!(n_entities_wellformed(raw), "strict loading accepts a malformed entity / character reference");
                    }
                    (CharacterDataSpec::Pattern { .. }, CharacterData::String(_)) => {
                        vk_check!(vres, "strict loading accepts a value its validator rejects");
                        vk_check!(max_length.is_none() || trim_byte_string(&input).len() <= max_length.unwrap(), "strict loading accepts a pattern value longer than max_length");
                    }
                    (CharacterDataSpec::UnsignedInteger, CharacterData::UnsignedInteger(v)) => {
                        let t = std::str::from_utf8(trim_byte_string(&input)).unwrap_or("x");
                        let t = t.strip_prefix('+').unwrap_or(t);
                        vk_check!(!t.is_empty() && t.bytes().all(|b| b.is_ascii_digit()), "strict loading accepts a non-numeric unsigned integer");
                        let mut acc: u128 = 0;
                        for b in t.bytes() { acc = acc * 10 + (b - b'0') as u128; }
                        vk_check!(acc == *v as u128, "unsigned integer value differs from the decimal reading of the text");
                    }
                    _ => {}
                }
            }
            (Ok(_), Err(_)) => vk_check!(false, "strict loading accepts a value that lenient loading rejects"),
            (Err(es), Ok(_)) => {
                vk_check!(!pl.warnings.is_empty(), "lenient loading silently accepts a value that strict loading rejects");
                vk_check!(err_kind(es) == err_kind(&pl.warnings[0]), "strict error is not the first lenient warning");
                vk_check!(parser_err_line(es) == parser_err_line(&pl.warnings[0]), "strict error and first lenient warning name different lines");
            }
            (Err(es), Err(el)) => {
                if pl.warnings.is_empty() {
                    vk_check!(err_kind(es) == err_kind(el), "strict error differs from the lenient hard error");
                } else {
                    vk_check!(err_kind(es) == err_kind(&pl.warnings[0]), "strict error is not the first lenient warning");
                }
            }
        }
    }
}

// C02 (value kernels): loading a value never panics (a panic inside the call reproduces the counterexample by itself)
#[cfg(not(kani))]
pub fn n_c02_value_total() {
    let input = replay_input();
    let kind = vk::any_u8();
    let preserve = vk::any_bool();
    let ml = vk::any_usize();
    let strict = vk::any_bool();
    let max_length = if ml == usize::MAX { None } else { Some(ml) };
    static ITEMS: [(EnumItem, u32); 2] = [(EnumItem::default, 0x3ffff), (EnumItem::preserve, 0x0ffff)];
    for vres in [true, false] {
        N_VALIDATOR_RESULT.with(|c| c.set(vres));
        let spec = match kind {
            0 => CharacterDataSpec::String { preserve_whitespace: preserve, max_length },
            1 => CharacterDataSpec::Pattern { check_fn: n_uf_validator, regex: "<regex>", max_length },
            2 => CharacterDataSpec::UnsignedInteger,
            3 => CharacterDataSpec::Float,
            _ => CharacterDataSpec::Enum { items: &ITEMS },
        };
        let mut p = ArxmlParser::new(PathBuf::new(), &[], strict);
        p.line = 1;
        let r = p.parse_character_data(&input, &spec);
        if let Err(e) = &r {
            vk_check!(parser_err_line(e) == Some(1), "error names a line outside the document");
        }
        for w in &p.warnings {
            vk_check!(parser_err_line(w) == Some(1), "warning names a line outside the document");
        }
    }
}

// ---------------------------------------------------------------------------------------------------------
// translator validation for engine E2: the real functions on concrete inputs, results in a canonical text form that
// tools/e2_validate.py compares with the MIR executor's result for the same input
// ---------------------------------------------------------------------------------------------------------
#[cfg(all(test, not(kani)))]
mod oracle {
    use super::*;
    use std::fmt::Write as _;

    fn hex(b: &[u8]) -> String {
        let mut s = String::new();
        for x in b {
            let _ = write!(s, "{:02x}", x);
        }
        if s.is_empty() { s.push('-'); }
        s
    }
    fn unhex(s: &str) -> Vec<u8> {
        if s == "-" { return Vec::new(); }
        (0..s.len() / 2).map(|i| u8::from_str_radix(&s[2 * i..2 * i + 2], 16).unwrap()).collect()
    }
    fn kind(e: &AutosarDataError) -> String {
        match e {
            AutosarDataError::ParserError { source, line, .. } => {
                let d = format!("{:?}", source);
                let name = d.split(|c: char| !c.is_alphanumeric()).next().unwrap_or("").to_string();
                format!("{}@{}", name, line)
            }
            _ => "other".to_string(),
        }
    }
    fn warn(p: &ArxmlParser) -> String {
        let mut s = format!("W{}", p.warnings.len());
        for w in &p.warnings {
            s.push(':');
            s.push_str(&kind(w));
        }
        s
    }
    fn cdata(v: &CharacterData) -> String {
        match v {
            CharacterData::String(s) => format!("S:{}", hex(s.as_bytes())),
            CharacterData::UnsignedInteger(u) => format!("U:{}", u),
            CharacterData::Float(f) => format!("F:{:016x}", f.to_bits()),
            CharacterData::Enum(e) => format!("E:{}", *e as u16),
        }
    }
    fn dummy_validate(s: &[u8]) -> bool {
        !s.is_empty() && s.iter().all(|c| c.is_ascii_digit())
    }

    #[test]
    fn verif_oracle() {
        let Ok(inp) = std::env::var("VERIF_ORACLE_IN") else { return; };
        let out_path = std::env::var("VERIF_ORACLE_OUT").unwrap();
        let text = std::fs::read_to_string(inp).unwrap();
        let mut out = String::new();
        static ITEMS: [(EnumItem, u32); 2] = [(EnumItem::default, 0x3ffff), (EnumItem::preserve, 0x0ffff)];
        for line in text.lines() {
            let f: Vec<&str> = line.split_whitespace().collect();
            if f.is_empty() { continue; }
            let res = match f[0] {
                "trim" => hex(trim_byte_string(&unhex(f[1]))),
                "unescape" => {
                    let b = unhex(f[1]);
                    match std::str::from_utf8(&b) {
                        Err(_) => "skip".to_string(),
                        Ok(s) => {
                            let mut p = ArxmlParser::new(PathBuf::new(), &[], f[2] == "1");
                            p.line = 7;
                            match p.unescape_string(s) {
                                Ok(v) => format!("Ok {} {}", hex(v.as_bytes()), warn(&p)),
                                Err(e) => format!("Err {}", kind(&e)),
                            }
                        }
                    }
                }
                "strops" => {
                    let (hay, pat, to) = (String::from_utf8(unhex(f[1])).unwrap(), String::from_utf8(unhex(f[2])).unwrap(), String::from_utf8(unhex(f[3])).unwrap());
                    format!("{} {}", hay.contains(pat.as_str()), hex(hay.replace(pat.as_str(), to.as_str()).as_bytes()))
                }
                "escape" => {
                    let b = unhex(f[1]);
                    match String::from_utf8(b) {
                        Err(_) => "skip".to_string(),
                        Ok(s) => {
                            let mut o = String::new();
                            CharacterData::String(s).serialize_internal(&mut o);
                            hex(o.as_bytes())
                        }
                    }
                }
                "pcd" => {
                    let b = unhex(f[1]);
                    let preserve = f[3] == "1";
                    let ml: i64 = f[4].parse().unwrap();
                    let max_length = if ml < 0 { None } else { Some(ml as usize) };
                    let spec = match f[2] {
                        "string" => CharacterDataSpec::String { preserve_whitespace: preserve, max_length },
                        "pattern" => CharacterDataSpec::Pattern { check_fn: dummy_validate, regex: "[0-9]+", max_length },
                        "uint" => CharacterDataSpec::UnsignedInteger,
                        "enum" => CharacterDataSpec::Enum { items: &ITEMS },
                        _ => CharacterDataSpec::Float,
                    };
                    let mut p = ArxmlParser::new(PathBuf::new(), &[], f[5] == "1");
                    p.line = 7;
                    p.fileversion = AutosarVersion::Autosar_00050;
                    match p.parse_character_data(&b, &spec) {
                        Ok(v) => format!("Ok {} {}", cdata(&v), warn(&p)),
                        Err(e) => format!("Err {} {}", kind(&e), warn(&p)),
                    }
                }
                "cmp" => {
                    let mk = |k: &str, v: &str| -> Option<CharacterData> {
                        Some(match k {
                            "s" => CharacterData::String(String::from_utf8(unhex(v)).ok()?),
                            "u" => CharacterData::UnsignedInteger(v.parse().ok()?),
                            "f" => CharacterData::Float(f64::from_bits(u64::from_str_radix(v, 16).ok()?)),
                            _ => CharacterData::Enum(unsafe { core::mem::transmute::<u16, EnumItem>(v.parse::<u16>().ok()?) }),
                        })
                    };
                    match (mk(f[1], f[2]), mk(f[3], f[4])) {
                        (Some(a), Some(b)) => format!("{:?}", a.cmp(&b)),
                        _ => "skip".to_string(),
                    }
                }
                _ => "unknown".to_string(),
            };
            out.push_str(&res);
            out.push('\n');
        }
        std::fs::write(out_path, out).unwrap();
    }
}

// parse_attribute_text (C02 / C08): replay on real element types: the root element, a package (optional attributes),
// a reference (required DEST attribute)
#[cfg(not(kani))]
fn n_etype(path: &[ElementName]) -> ElementType {
    let mut t = ElementType::ROOT;
    for n in path {
        t = t.find_sub_element(*n, u32::MAX).expect("VK_REPLAY_SHAPE").0;
    }
    t
}

#[cfg(not(kani))]
pub fn n_attr_text() {
    let input = replay_input();
    let relational = vk::any_bool();
    let strict1 = vk::any_bool();
    let types = [
        ElementType::ROOT,
        n_etype(&[ElementName::ArPackages, ElementName::ArPackage]),
        n_etype(&[ElementName::ArPackages, ElementName::ArPackage, ElementName::Elements, ElementName::System, ElementName::FibexElements,
                  ElementName::FibexElementRefConditional, ElementName::FibexElementRef]),
    ];
    for et in types {
        if !relational {
            let mut p = ArxmlParser::new(PathBuf::new(), &[], strict1);
            p.fileversion = AutosarVersion::Autosar_00050;
            let r = p.parse_attribute_text(et, &input);
            if let Err(e) = &r {
                vk_check!(parser_err_line(e) == Some(1), "error names a line outside the document");
            }
            continue;
        }
        let mut ps = ArxmlParser::new(PathBuf::new(), &[], true);
        let mut pl = ArxmlParser::new(PathBuf::new(), &[], false);
        ps.fileversion = AutosarVersion::Autosar_00050;
        pl.fileversion = AutosarVersion::Autosar_00050;
        let rs = ps.parse_attribute_text(et, &input);
        let rl = pl.parse_attribute_text(et, &input);
        match (&rs, &rl) {
            (Ok(a), Ok(b)) => {
                vk_check!(pl.warnings.is_empty(), "lenient warns about attribute text that strict accepts");
                vk_check!(a.len() == b.len() && a.iter().zip(b.iter()).all(|(x, y)| x == y), "strict and lenient produce different attributes");
                for (name, _spec, required) in et.attribute_spec_iter() {
                    vk_check!(!required || a.iter().any(|x| x.attrname == name), "strict loading accepts an element without a required attribute");
                }
                for x in a.iter() {
                    let spec = et.find_attribute_spec(x.attrname);
                    vk_check!(spec.is_some_and(|s| s.version & (AutosarVersion::Autosar_00050 as u32) != 0), "strict loading accepts an attribute that is unknown for the element or not available in the file version");
                }
            }
            (Ok(_), Err(_)) => vk_check!(false, "strict accepts attribute text that lenient rejects"),
            (Err(es), Ok(_)) => {
                vk_check!(!pl.warnings.is_empty(), "lenient silently accepts attribute text that strict rejects");
                vk_check!(err_kind(es) == err_kind(&pl.warnings[0]), "strict error is not the first lenient warning");
            }
            (Err(_), Err(_)) => {}
        }
    }
}

// C08 (element level): replay on a real instance of the specification with the same answers the solver chose
// (container mode / multiplicity / group mode / availability in the file version): the element types reachable from the
// root are searched for a matching (element type, sub-element) and the real check is called on it, strict and lenient.
#[cfg(not(kani))]
fn n_all_types() -> std::vec::Vec<ElementType> {
    let mut seen = std::collections::HashSet::new();
    let mut out = std::vec::Vec::new();
    let mut queue = std::collections::VecDeque::new();
    queue.push_back(ElementType::ROOT);
    seen.insert(ElementType::ROOT);
    while let Some(t) = queue.pop_front() {
        out.push(t);
        for (_name, st, _, _) in t.sub_element_spec_iter() {
            if seen.insert(st) {
                queue.push_back(st);
            }
        }
    }
    out
}

#[cfg(not(kani))]
pub fn n_all_types_pub() -> std::vec::Vec<ElementType> { n_all_types() }

#[cfg(not(kani))]
fn n_cm(i: u8) -> ContentMode {
    match i {
        0 => ContentMode::Sequence,
        1 => ContentMode::Choice,
        2 => ContentMode::Bag,
        _ => ContentMode::Mixed,
    }
}

#[cfg(not(kani))]
pub fn n_c08_element() {
    let mode = vk::any_u8();
    let version = AutosarVersion::Autosar_00050;
    let mk = |strict: bool| {
        let mut p = ArxmlParser::new(PathBuf::new(), &[], strict);
        p.fileversion = version;
        p
    };
    let relation = |rs: &Result<(), AutosarDataError>, rl: &Result<(), AutosarDataError>, pl: &ArxmlParser| {
        match (rs, rl) {
            (Ok(()), Ok(())) => vk_check!(pl.warnings.is_empty(), "strict accepts what lenient warns about"),
            (Ok(()), Err(_)) => vk_check!(false, "strict accepts what lenient rejects"),
            (Err(es), Ok(())) => {
                vk_check!(!pl.warnings.is_empty(), "lenient silently accepts what strict rejects");
                vk_check!(err_kind(es) == err_kind(&pl.warnings[0]), "strict error is not the first lenient warning");
            }
            (Err(_), Err(_)) => {}
        }
    };
    if mode == 0 {
        // multiplicity
        let cmode = n_cm(vk::any_u8());
        let mult = match vk::any_u8() { 1 => Some(ElementMultiplicity::ZeroOrOne), 2 => Some(ElementMultiplicity::One), 3 => Some(ElementMultiplicity::Any), _ => None };
        let dup = vk::any_bool();
        let Some(mult) = mult else { return; };
        for t in n_all_types() {
            let mut subs = std::vec::Vec::new();
            for (name, _st, _, _) in t.sub_element_spec_iter() {
                if let Some((st, idx)) = t.find_sub_element(name, u32::MAX) {
                    subs.push((name, st, idx));
                }
            }
            for (name, st, idx) in &subs {
                if t.get_sub_element_container_mode(idx) != cmode || t.get_sub_element_multiplicity(idx) != Some(mult) {
                    continue;
                }
                // existing content: the same sub-element (dup) or a different one
                let other = subs.iter().find(|(n, _, _)| n != name);
                let (ename, etype) = if dup { (*name, *st) } else { match other { Some((n, s, _)) => (*n, *s), None => continue } };
                let child = ElementRaw { parent: ElementOrModel::None, elemname: ename, elemtype: etype, content: SmallVec::new(), attributes: SmallVec::new(), file_membership: HashSet::with_capacity(0), comment: None }.wrap();
                let mut content = SmallVec::new();
                content.push(ElementContent::Element(child));
                let parent = ElementRaw { parent: ElementOrModel::None, elemname: ElementName::Autosar, elemtype: t, content, attributes: SmallVec::new(), file_membership: HashSet::with_capacity(0), comment: None };
                let (mut ps, mut pl) = (mk(true), mk(false));
                let rs = ps.check_multiplicity(*name, t, idx, &parent);
                let rl = pl.check_multiplicity(*name, t, idx, &parent);
                relation(&rs, &rl, &pl);
                let must_reject = dup && (cmode == ContentMode::Sequence || cmode == ContentMode::Choice) && mult != ElementMultiplicity::Any;
                vk_check!(rs.is_err() == must_reject, "strict multiplicity check differs from the documented rule (repeated single-occurrence sub-element)");
                return;
            }
        }
    } else if mode == 1 {
        // exclusive choice
        let gmode = n_cm(vk::any_u8());
        let different = vk::any_bool();
        for t in n_all_types() {
            let mut subs = std::vec::Vec::new();
            for (name, _st, _, _) in t.sub_element_spec_iter() {
                if let Some((_, idx)) = t.find_sub_element(name, u32::MAX) {
                    subs.push((name, idx));
                }
            }
            for i in 0..subs.len() {
                for j in 0..subs.len() {
                    if (i != j) != different {
                        continue;
                    }
                    if i != j && t.find_common_group(&subs[i].1, &subs[j].1).content_mode() != gmode {
                        continue;
                    }
                    let (mut ps, mut pl) = (mk(true), mk(false));
                    let rs = ps.check_element_conflict(subs[j].0, t, &subs[i].1, &subs[j].1);
                    let rl = pl.check_element_conflict(subs[j].0, t, &subs[i].1, &subs[j].1);
                    relation(&rs, &rl, &pl);
                    let conflict = i != j && gmode == ContentMode::Choice;
                    vk_check!(rs.is_err() == conflict, "strict choice-conflict check differs from the documented rule");
                    return;
                }
            }
        }
    } else {
        // sub-element lookup with version
        let listed = vk::any_bool();
        let available = vk::any_bool();
        for t in n_all_types() {
            if !listed {
                let (mut ps, mut pl) = (mk(true), mk(false));
                let rs = ps.find_element_in_spec_checked(ElementName::Autosar, t).map(|_| ());
                let rl = pl.find_element_in_spec_checked(ElementName::Autosar, t).map(|_| ());
                relation(&rs, &rl, &pl);
                vk_check!(rs.is_err(), "strict loading accepts a sub-element that is unknown in its context");
                return;
            }
            for (name, _st, mask, _) in t.sub_element_spec_iter() {
                if (mask & (version as u32) != 0) != available {
                    continue;
                }
                if t.find_sub_element(name, version as u32).is_some() != available {
                    continue;
                }
                let (mut ps, mut pl) = (mk(true), mk(false));
                let rs = ps.find_element_in_spec_checked(name, t).map(|_| ());
                let rl = pl.find_element_in_spec_checked(name, t).map(|_| ());
                relation(&rs, &rl, &pl);
                vk_check!(rs.is_ok() == available, "strict loading accepts a sub-element that is not available in the file version (or rejects one that is)");
                return;
            }
        }
    }
}

// ---------------------------------------------------------------------------------------------------------
// parse_element on token sequences (C01 / C02 / C08): replay through the PUBLIC loader on the real specification.
// The mini schema of the executor mirrors the real one for AUTOSAR > AR-PACKAGES > AR-PACKAGE > SHORT-NAME / CATEGORY / AR-PACKAGES.
// ---------------------------------------------------------------------------------------------------------
#[cfg(not(kani))]
const N_TOKENS: [&[u8]; 19] = [b"<AR-PACKAGES>", b"</AR-PACKAGES>", b"<AR-PACKAGE>", b"</AR-PACKAGE>", b"<SHORT-NAME>", b"</SHORT-NAME>", b"<CATEGORY>", b"</CATEGORY>", b"", b"<!--c-->", b"</AUTOSAR>",
    // mixed-content extension (the reference reader n_ref_doc does not know these: aspects 2, 9 and 18 only)
    b"<DESC>", b"</DESC>", b"<L-2 L=\"EN\">", b"</L-2>", b"<BR/>", b"<SUP>", b"</SUP>", b"<L-2>"];

/// independent reading of the token sequence: Some(canonical text of the tree) when it is a valid document of the mini schema
#[cfg(not(kani))]
fn n_ref_doc(toks: &[u8], texts: &[u8], comments: &[std::vec::Vec<u8>]) -> Option<String> {
    fn kind_of_start(t: u8) -> Option<usize> { match t { 0 => Some(1), 2 => Some(2), 4 => Some(3), 6 => Some(4), _ => None } }
    fn kind_of_end(t: u8) -> Option<usize> { match t { 1 => Some(1), 3 => Some(2), 5 => Some(3), 7 => Some(4), 10 => Some(0), _ => None } }
    const NAMES: [&str; 5] = ["AUTOSAR", "AR-PACKAGES", "AR-PACKAGE", "SHORT-NAME", "CATEGORY"];
    fn allowed(parent: usize, k: usize) -> bool { matches!((parent, k), (0, 1) | (1, 2) | (2, 3) | (2, 4) | (2, 1)) }
    fn single(parent: usize, k: usize) -> bool { matches!((parent, k), (0, 1) | (2, 3) | (2, 4) | (2, 1)) }
    struct St<'a> { toks: &'a [u8], texts: &'a [u8], comments: &'a [std::vec::Vec<u8>], pos: usize, ti: usize, ci: usize }
    fn parse(st: &mut St, kind: usize, out: &mut String) -> Option<()> {
        let mut seen = [false; 5];
        let mut pending_comment: Option<usize> = None;
        loop {
            if st.pos >= st.toks.len() { return None; }
            let t = st.toks[st.pos];
            st.pos += 1;
            if let Some(k) = kind_of_start(t) {
                if !allowed(kind, k) { return None; }
                if single(kind, k) { if seen[k] { return None; } seen[k] = true; }
                out.push('(');
                out.push_str(NAMES[k]);
                if let Some(c) = pending_comment { out.push_str(" #"); out.push_str(std::str::from_utf8(&st.comments[c]).ok()?); }
                pending_comment = None;
                parse(st, k, out)?;
                out.push(')');
            } else if let Some(k) = kind_of_end(t) {
                if k != kind { return None; }
                if kind == 2 && !seen[3] { return None; }
                return Some(());
            } else if t == 8 {
                // adjacent text tokens are one run of character data
                let mut run = std::vec![st.texts[st.ti]];
                st.ti += 1;
                while st.pos < st.toks.len() && st.toks[st.pos] == 8 {
                    run.push(st.texts[st.ti]);
                    st.ti += 1;
                    st.pos += 1;
                }
                let mut s0 = 0;
                let mut e0 = run.len();
                while s0 < e0 && run[s0].is_ascii_whitespace() { s0 += 1; }
                while e0 > s0 && run[e0 - 1].is_ascii_whitespace() { e0 -= 1; }
                let val = &run[s0..e0];
                if val.is_empty() { continue; }
                if kind != 3 && kind != 4 { return None; }
                if !val[0].is_ascii_alphabetic() || !val[1..].iter().all(|b| b.is_ascii_alphanumeric() || *b == b'_') { return None; }
                out.push_str(" \"");
                out.push_str(std::str::from_utf8(val).ok()?);
                out.push('"');
            } else {
                pending_comment = Some(st.ci);
                st.ci += 1;
            }
        }
    }
    let mut st = St { toks, texts, comments, pos: 0, ti: 0, ci: 0 };
    let mut out = String::from("(AUTOSAR");
    parse(&mut st, 0, &mut out)?;
    out.push(')');
    while st.pos < toks.len() {
        let t = toks[st.pos];
        st.pos += 1;
        if t == 9 { continue; }
        if t == 8 { let b = texts[st.ti]; st.ti += 1; if b.is_ascii_whitespace() { continue; } }
        return None;
    }
    Some(out)
}

#[cfg(not(kani))]
fn n_canon(e: &crate::Element, out: &mut String) {
    out.push('(');
    out.push_str(e.element_name().to_str());
    if e.comment().is_some() { out.push_str(" #"); out.push_str(&e.comment().unwrap()); }
    for c in e.content() {
        match c {
            crate::ElementContent::Element(sub) => n_canon(&sub, out),
            crate::ElementContent::CharacterData(cd) => { out.push_str(" \""); out.push_str(&cd.to_string()); out.push('"'); }
        }
    }
    out.push(')');
}

/// like n_canon, with the attributes of every element (round-trip comparison)
#[cfg(not(kani))]
fn n_canon_full(e: &crate::Element, out: &mut String) {
    out.push('(');
    out.push_str(e.element_name().to_str());
    for a in e.attributes() { out.push_str(" @"); out.push_str(a.attrname.to_str()); out.push('='); out.push_str(&a.content.to_string()); }
    if e.comment().is_some() { out.push_str(" #"); out.push_str(&e.comment().unwrap()); }
    for c in e.content() {
        match c {
            crate::ElementContent::Element(sub) => n_canon_full(&sub, out),
            crate::ElementContent::CharacterData(cd) => { out.push_str(" \""); out.push_str(&cd.to_string()); out.push('"'); }
        }
    }
    out.push(')');
}

#[cfg(not(kani))]
pub fn n_parse_element_doc() {
    let ntok = vk::any_usize();
    let mut toks = std::vec::Vec::new();
    for _ in 0..ntok { toks.push(vk::any_u8()); }
    let ntext = toks.iter().filter(|t| **t == 8).count();
    let mut texts = std::vec::Vec::new();
    for _ in 0..ntext { texts.push(vk::any_u8()); }
    let ncomm = toks.iter().filter(|t| **t == 9).count();
    let mut comments: std::vec::Vec<std::vec::Vec<u8>> = std::vec::Vec::new();
    for _ in 0..ncomm {
        let n = vk::any_u8();
        assert!(n <= 3, "VK_REPLAY_SHAPE");
        comments.push((0..n).map(|_| vk::any_u8()).collect());
    }
    let _fv = vk::any_u32();
    let _mask = vk::any_u32();
    let aspect = vk::any_u8();
    let mut doc: std::vec::Vec<u8> = br#"<?xml version="1.0" encoding="utf-8"?><AUTOSAR xsi:schemaLocation="http://autosar.org/schema/r4.0 AUTOSAR_00050.xsd" xmlns="http://autosar.org/schema/r4.0" xmlns:xsi="http://www.w3.org/2001/XMLSchema-instance">"#.to_vec();
    let mut ti = 0;
    let mut ci = 0;
    for t in &toks {
        assert!((*t as usize) < N_TOKENS.len(), "VK_REPLAY_SHAPE");
        if *t == 8 { doc.push(texts[ti]); ti += 1; }
        else if *t == 9 { doc.extend_from_slice(b"<!--"); doc.extend_from_slice(&comments[ci]); doc.extend_from_slice(b"-->"); ci += 1; }
        else { doc.extend_from_slice(N_TOKENS[*t as usize]); }
    }
    let lines = 1 + doc.iter().filter(|b| **b == b'\n').count();
    let ms = crate::AutosarModel::new();
    let rs = ms.load_buffer(&doc, "s.arxml", true);
    let ml = crate::AutosarModel::new();
    let rl = ml.load_buffer(&doc, "l.arxml", false);
    let reference = if toks.iter().all(|t| *t <= 10) { n_ref_doc(&toks, &texts, &comments) } else { None };
    if aspect == 2 {
        for r in [&rs, &rl] {
            if let Err(AutosarDataError::ParserError { line, .. } | AutosarDataError::LexerError { line, .. }) = r {
                vk_check!(*line >= 1 && *line <= lines, "error names a line outside the document");
            }
        }
    } else if aspect == 8 || aspect == 18 {
        match (&rs, &rl) {
            (Ok(_), Ok((_, w))) => vk_check!(w.is_empty(), "strict accepts a document that lenient warns about"),
            (Ok(_), Err(_)) => vk_check!(false, "strict accepts a document that lenient rejects"),
            (Err(es), Ok((_, w))) => {
                vk_check!(!w.is_empty(), "lenient silently accepts a document that strict rejects");
                vk_check!(err_kind(es) == err_kind(&w[0]), "strict error is not the first lenient warning");
            }
            (Err(_), Err(_)) => {}
        }
        if rs.is_ok() && aspect == 8 {
            vk_check!(reference.is_some(), "strict loading accepts a document that violates the schema");
        }
    } else if aspect == 9 {
        // load -> serialize -> load -> serialize through the public API
        if let Ok((file, w)) = &rs {
            if w.is_empty() {
                let text1 = file.serialize().expect("serialize");
                let m2 = crate::AutosarModel::new();
                let r2 = m2.load_buffer(text1.as_bytes(), "s2.arxml", true);
                vk_check!(r2.is_ok(), "the text written for a loaded document is rejected when loaded again");
                let (mut c1, mut c2) = (String::new(), String::new());
                n_canon_full(&ms.root_element(), &mut c1);
                n_canon_full(&m2.root_element(), &mut c2);
                vk_check!(c1 == c2, "load -> serialize -> load changes the model");
                let text2 = r2.unwrap().0.serialize().expect("serialize");
                vk_check!(text1 == text2, "second serialization differs from the first");
            }
        }
    } else {
        if let (Ok(_), Some(want)) = (&rs, &reference) {
            let mut got = String::new();
            n_canon(&ms.root_element(), &mut got);
            vk_check!(&got == want, "the loaded tree differs from the document");
        }
    }
}
