// In-crate harnesses for autosar-data/src/parser.rs (included by the guarded hook at the end of that file).
use super::*;

include!(concat!(env!("AUTOSAR_DATA_VERIF_DIR"), "/harness/vk.rs"));

fn is_ws(b: u8) -> bool {
    b == b' ' || b == b'\t' || b == b'\n' || b == 0x0c || b == b'\r'
}

fn bytes_eq(a: &[u8], b: &[u8]) -> bool {
    if a.len() != b.len() {
        return false;
    }
    let mut i = 0;
    while i < a.len() {
        if a[i] != b[i] {
            return false;
        }
        i += 1;
    }
    true
}

fn offset_in(buf: &[u8], part: &[u8]) -> usize {
    unsafe { part.as_ptr().offset_from(buf.as_ptr()) as usize }
}

/// a parser in the middle of a document: symbolic current line L within a document of T lines (1 <= L <= T)
fn any_parser(strict: bool, line: usize) -> ArxmlParser<'static> {
    let mut p = ArxmlParser::new(PathBuf::new(), &[], strict);
    p.line = line;
    p
}

fn any_line() -> (usize, usize) {
    let total = vk::any_usize();
    let line = vk::any_usize();
    vk::assume(line >= 1 && line <= total);
    (line, total)
}

fn parser_err_line(e: &AutosarDataError) -> Option<usize> {
    match e {
        AutosarDataError::ParserError { line, .. } => Some(*line),
        _ => None,
    }
}

fn err_kind(e: &AutosarDataError) -> Option<core::mem::Discriminant<ArxmlParserError>> {
    match e {
        AutosarDataError::ParserError { source, .. } => Some(core::mem::discriminant(source)),
        _ => None,
    }
}

fn ascii_str<'a>(b: &'a [u8]) -> &'a str {
    let mut i = 0;
    while i < b.len() {
        vk::assume(b[i] < 0x80);
        i += 1;
    }
    // SAFETY: all bytes are ASCII
    unsafe { core::str::from_utf8_unchecked(b) }
}

// ---------------------------------------------------------------------------------------------------------
// trim_byte_string
// ---------------------------------------------------------------------------------------------------------
// C02: total on every byte string (incl. empty and all-blank)
macro_rules! h_par_trim_total {
    ($name:ident, $n:literal, $unw:literal) => {
        #[cfg_attr(kani, kani::proof)]
        #[cfg_attr(kani, kani::unwind($unw))]
        pub fn $name() {
            let buf: [u8; $n] = vk::any_bytes::<$n>();
            let len = vk::any_usize();
            vk::assume(len <= $n);
            let out = trim_byte_string(&buf[..len]);
            vk_cover!(out.len() == 0 && len > 0, "all-blank input");
            vk_cover!(out.len() > 0 && out.len() < len, "something trimmed");
            vk_check!(out.len() <= len, "trim_byte_string returned more than it was given");
        }
    };
}

// C01: exactly the leading and trailing XML white space is removed, nothing else
macro_rules! h_par_trim_exact {
    ($name:ident, $n:literal, $unw:literal) => {
        #[cfg_attr(kani, kani::proof)]
        #[cfg_attr(kani, kani::unwind($unw))]
        pub fn $name() {
            let buf: [u8; $n] = vk::any_bytes::<$n>();
            let len = vk::any_usize();
            vk::assume(len <= $n);
            let out = trim_byte_string(&buf[..len]);
            // reference
            let mut s = 0;
            while s < len && is_ws(buf[s]) {
                s += 1;
            }
            let mut e = len;
            while e > s && is_ws(buf[e - 1]) {
                e -= 1;
            }
            vk_cover!(s > 0 && e < len && e > s, "white space on both sides");
            vk_check!(out.len() == e - s, "trimmed length differs from the XML definition of surrounding white space");
            if e > s {
                vk_check!(offset_in(&buf, out) == s, "trimmed text starts at the wrong byte");
            }
        }
    };
}

// ---------------------------------------------------------------------------------------------------------
// unescape_string: C02 totality + line, C08 strict/lenient relation, C01 faithfulness of entity decoding
// ---------------------------------------------------------------------------------------------------------
macro_rules! h_par_unescape_total {
    ($name:ident, $n:literal, $unw:literal, $strict:literal) => {
        #[cfg_attr(kani, kani::proof)]
        #[cfg_attr(kani, kani::unwind($unw))]
        pub fn $name() {
            let buf: [u8; $n] = vk::any_bytes::<$n>();
            let len = vk::any_usize();
            vk::assume(len <= $n);
            let text = ascii_str(&buf[..len]);
            let (line, total) = any_line();
            let mut p = any_parser($strict, line);
            let r = p.unescape_string(text);
            match &r {
                Ok(v) => {
                    vk_cover!(v.len() < len, "an entity was decoded");
                }
                Err(e) => {
                    vk_cover!(true, "rejected");
                    let l = parser_err_line(e);
                    vk_check!(l.is_some() && l.unwrap() >= 1 && l.unwrap() <= total, "parser error line outside the input's lines");
                }
            }
            let mut i = 0;
            while i < p.warnings.len() {
                let l = parser_err_line(&p.warnings[i]);
                vk_check!(l.is_some() && l.unwrap() >= 1 && l.unwrap() <= total, "parser warning line outside the input's lines");
                i += 1;
            }
            core::mem::forget(r);
            core::mem::forget(p);
        }
    };
}

// one symbolic skeleton for the character-reference paths: PRE ++ hole bytes ++ POST, holes over all ASCII values
macro_rules! h_par_unescape_tmpl_total {
    ($name:ident, $pre:literal, $holes:literal, $post:literal, $unw:literal, $strict:literal) => {
        #[cfg_attr(kani, kani::proof)]
        #[cfg_attr(kani, kani::unwind($unw))]
        pub fn $name() {
            const PRE: &[u8] = $pre;
            const POST: &[u8] = $post;
            let mut buf = [0u8; $pre.len() + $holes + $post.len()];
            let mut i = 0;
            while i < PRE.len() {
                buf[i] = PRE[i];
                i += 1;
            }
            let holes: [u8; $holes] = vk::any_bytes::<$holes>();
            let mut j = 0;
            while j < $holes {
                buf[i] = holes[j];
                i += 1;
                j += 1;
            }
            let mut k = 0;
            while k < POST.len() {
                buf[i] = POST[k];
                i += 1;
                k += 1;
            }
            let text = ascii_str(&buf[..]);
            let (line, total) = any_line();
            let mut p = any_parser($strict, line);
            let r = p.unescape_string(text);
            match &r {
                Ok(v) => {
                    vk_cover!(v.len() < buf.len(), "the reference was decoded");
                }
                Err(e) => {
                    vk_cover!(true, "rejected");
                    let l = parser_err_line(e);
                    vk_check!(l.is_some() && l.unwrap() >= 1 && l.unwrap() <= total, "parser error line outside the input's lines");
                }
            }
            core::mem::forget(r);
            core::mem::forget(p);
        }
    };
}

// ---------------------------------------------------------------------------------------------------------
// native replay bodies for properties decided by engine E2 (MIR symbolic executor): the same property, stated on
// the real functions, executed on the concrete counterexample the solver produced. Never run under Kani.
// ---------------------------------------------------------------------------------------------------------
#[cfg(not(kani))]
fn replay_input() -> std::vec::Vec<u8> {
    let len = vk::any_usize();
    let mut v = std::vec::Vec::new();
    let mut i = 0;
    while i < len {
        v.push(vk::any_u8());
        i += 1;
    }
    v
}

// C01/K1: load(text) = v  =>  load(serialize(v)) = v  and  serialize(load(serialize(v))) = serialize(v)
#[cfg(not(kani))]
pub fn n_c01_text_roundtrip() {
    let input = replay_input();
    let strict = vk::any_bool();
    let preserve = vk::any_bool();
    let spec = CharacterDataSpec::String { preserve_whitespace: preserve, max_length: None };
    let mut p1 = ArxmlParser::new(PathBuf::new(), &[], strict);
    let Ok(v1) = p1.parse_character_data(&input, &spec) else { return; };
    let mut t1 = String::new();
    v1.serialize_internal(&mut t1);
    let mut p2 = ArxmlParser::new(PathBuf::new(), &[], strict);
    let r2 = p2.parse_character_data(t1.as_bytes(), &spec);
    vk_check!(r2.is_ok(), "text written for a loaded value is rejected when loaded again");
    let v2 = r2.unwrap();
    vk_check!(v1 == v2, "value changed by serialize -> load");
    let mut t2 = String::new();
    v2.serialize_internal(&mut t2);
    vk_check!(t1 == t2, "second serialization differs from the first");
}
