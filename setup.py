#!/usr/bin/env python3
"""MANIFEST.setup_cmd: offline sanity of the tool chain the checks need. Builds nothing persistent: every check rebuilds
its harnesses / MIR dump from /repo's current working tree in its own directory under /verif/.work and removes the build output."""
import shutil, subprocess, sys
ok = True
for tool in ('cargo', 'cbmc', 'goto-instrument', 'python3', 'python3-vt'):
    if not shutil.which(tool):
        print('missing tool:', tool); ok = False
try:
    out = subprocess.run(['cargo', 'kani', '--version'], capture_output=True, text=True, timeout=120)
    print(out.stdout.strip() or out.stderr.strip())
    ok = ok and out.returncode == 0
    out = subprocess.run(['cargo', '+nightly', '--version'], capture_output=True, text=True, timeout=120)
    print(out.stdout.strip() or out.stderr.strip())
    ok = ok and out.returncode == 0
    out = subprocess.run(['python3-vt', '-c', 'import z3; print("z3", z3.get_version_string())'], capture_output=True, text=True, timeout=120)
    print(out.stdout.strip() or out.stderr.strip())
    ok = ok and out.returncode == 0
except Exception as e:
    print('tool not runnable:', e); ok = False
sys.path.insert(0, '/verif/tools')
import regex_dfa
n, bad = regex_dfa.selftest(r'0[xX][0-9a-fA-F]+')
print('regex_dfa selftest', n, bad)
sys.exit(0 if ok and not bad else 1)
